"""Driver: ./check <ID> [--tier quick|thorough] [--replay file]"""
import argparse
import importlib
import json
import os
import sys
import traceback

from . import report, support


def main():
    ap = argparse.ArgumentParser()
    ap.add_argument('prop')
    ap.add_argument('--tier', default=os.environ.get('VERIF_TIER', 'quick'), choices=['quick', 'thorough'])
    ap.add_argument('--replay')
    args = ap.parse_args()
    seed = int(os.environ.get('VERIF_SEED', '0') or 0)
    os.environ['VERIF_TIER'] = args.tier  # inherited by the spawned workers (second-solver sampling)
    sys.path.insert(0, report.REPO)
    mod = importlib.import_module('checks.' + args.prop.lower())
    if args.replay:
        with open(args.replay) as f:
            data = json.load(f)
        if data.get('via'):   # a hypothesis of this property decided by another property's decider (vf/support.py)
            mod = importlib.import_module('checks.' + data['via'].lower())
        ok = mod.replay(data['replay'])
        print('replay: violation %s' % ('REPRODUCED' if ok else 'did not reproduce'))
        sys.exit(1 if ok else 0)
    out = report.Outcome(args.prop, args.tier, seed, getattr(mod, 'LEVEL', 'other'))
    try:
        mod.run(out)
        support.run_supporting(out)
    except Exception as e:  # harness error: never a verdict
        out.inconclusive.append('harness error %s: %s | %s' % (type(e).__name__, e,
                                                                traceback.format_exc()[-1200:]))
    sys.exit(report.finish(out))


if __name__ == '__main__':
    main()
