"""Models of C-level functions that cannot take symbolic arguments.  They are bound into the
*harness process's* copy of a repository module (module-global rebinding, never an edit of /repo).
Each model states the documented contract of what it replaces; every harness lists the ones it uses."""
import builtins
import math

import numpy as _np

from .sym import SB, SR, Inconclusive, engine, is_sym


def _has_sym(x):
    if is_sym(x):
        return True
    if isinstance(x, _np.ndarray) and x.dtype == object:
        return any(is_sym(v) for v in x.flat)
    if isinstance(x, (list, tuple)):
        return any(_has_sym(v) for v in x)
    return False


def _vec(f):
    def g(x, *a):
        if isinstance(x, _np.ndarray):
            if x.dtype != object:
                return f.__concrete__(x, *a)
            out = _np.empty(x.shape, dtype=object)
            for idx, v in _np.ndenumerate(x):
                out[idx] = g(v, *a)
            return out
        if isinstance(x, SR):
            if x.is_const():
                # keep exact-constant mode symbolic: the value of exp/Ei at a rational is not rational
                return f(x, *a)
            return f(x, *a)
        return f.__concrete__(x, *a)
    return g


def uf_model(name, concrete, odd=False):
    """Uninterpreted function `name` on canonical arguments; odd functions are sign-normalised."""
    def f(x):
        x = SR.lift(x)
        if odd:
            if not x.p:
                return SR.const(0)
            lead = sorted(x.p.items())[0][1]
            if lead < 0:
                return -engine().apply(name, -x)
        return engine().apply(name, x)
    f.__concrete__ = concrete
    return _vec(f)


def sqrt_model(x):
    if isinstance(x, _np.ndarray):
        if x.dtype != object:
            return _np.sqrt(x)
        out = _np.empty(x.shape, dtype=object)
        for idx, v in _np.ndenumerate(x):
            out[idx] = sqrt_model(v)
        return out
    if isinstance(x, SR):
        return x.sqrt()
    return math.sqrt(x)


def float_model(x):
    """float() that is the identity on symbolic scalars."""
    if isinstance(x, SR):
        return x
    return builtins.float(x)


def abs_model(x):
    return builtins.abs(x)


def isclose_model(a, b, rel_tol=1e-09, abs_tol=0.0):
    """math.isclose: |a-b| <= max(rel_tol*max(|a|,|b|), abs_tol).  ndarray arguments first go through
    NumPy's own scalar conversion (so the NumPy 2 TypeError for 1-element arrays is reproduced)."""
    def scal(v):
        if isinstance(v, _np.ndarray):
            if v.dtype == object:
                if v.ndim > 0:
                    raise TypeError('only 0-dimensional arrays can be converted to Python scalars')
                return v.item()
            return float(v)  # NumPy decides (raises TypeError for ndim > 0 under NumPy >= 2.?)
        return v
    a, b = scal(a), scal(b)
    if not (is_sym(a) or is_sym(b)):
        return math.isclose(a, b, rel_tol=rel_tol, abs_tol=abs_tol)
    d = builtins.abs(a - b)
    m = builtins.max(builtins.abs(SR.lift(a)), builtins.abs(SR.lift(b)))
    bound = m * rel_tol
    if abs_tol and bound < abs_tol:
        bound = SR.lift(abs_tol)
    return bool(d <= bound)


def fsum_model(xs):
    xs = list(xs)
    if not any(is_sym(x) for x in xs):
        return math.fsum(xs)
    tot = SR.const(0)
    for x in xs:
        tot = tot + x
    return tot


def select_model(condlist, choicelist, default=0):
    """np.select: elementwise, first condition that holds wins, else default."""
    if not (_has_sym(condlist) or _has_sym(choicelist)):
        return _np.select(condlist, choicelist, default)
    choices = [_np.asarray(c, dtype=object) if not isinstance(c, _np.ndarray) else c for c in choicelist]
    shape = _np.broadcast(*choices).shape
    out = _np.empty(shape, dtype=object)
    conds = [(_np.broadcast_to(_np.asarray(c, dtype=object), shape)) for c in condlist]
    chs = [_np.broadcast_to(c, shape) for c in choices]
    for idx in _np.ndindex(*shape):
        val = default
        for c, ch in zip(conds, chs):
            if c[idx]:  # symbolic truth value -> forks
                val = ch[idx]
                break
        out[idx] = val
    return out


def all_model(x, *a, **k):
    if isinstance(x, SB):
        return bool(x)
    if isinstance(x, _np.ndarray) and x.dtype == object:
        return builtins.all(bool(v) for v in x.flat)
    return _np.all(x, *a, **k)


def norm_model(x, *a, **k):
    if not _has_sym(x):
        return _np.linalg.norm(x, *a, **k)
    if a or k:
        raise Inconclusive('np.linalg.norm with axis on symbolic data is not modelled')
    tot = SR.const(0)
    for v in _np.asarray(x, dtype=object).flat:
        tot = tot + v * v
    return tot.sqrt()


def zeros_model(shape, dtype=None, *a, **k):
    """np.zeros that can hold symbolic entries (object array of exact 0)."""
    out = _np.empty(shape, dtype=object)
    out.fill(0)
    return out


class _Linalg:
    def __init__(self, overrides):
        self._o = overrides

    def __getattr__(self, n):
        if n in self._o:
            return self._o[n]
        return getattr(_np.linalg, n)


class NpProxy:
    """Stands in for the module global `np`: forwards everything to NumPy except the listed names."""
    def __init__(self, overrides=None, linalg=None):
        self._o = dict(overrides or {})
        self.linalg = _Linalg(dict(linalg or {}))

    def __getattr__(self, n):
        o = self.__dict__.get('_o', {})
        if n in o:
            return o[n]
        return getattr(_np, n)


def noprint(*a, **k):
    pass
