"""Models of C-level functions that cannot take symbolic arguments.  They are bound into the
*harness process's* copy of a repository module (module-global rebinding, never an edit of /repo).
Each model states the documented contract of what it replaces; every harness lists the ones it uses."""
import builtins
import math

import numpy as _np

from .sym import SB, SR, Inconclusive, engine, is_sym


def _has_sym(x):
    if is_sym(x):
        return True
    if isinstance(x, _np.ndarray) and x.dtype == object:
        return any(is_sym(v) for v in x.flat)
    if isinstance(x, (list, tuple)):
        return any(_has_sym(v) for v in x)
    return False


def _vec(f):
    def g(x, *a):
        if isinstance(x, _np.ndarray):
            if x.dtype != object:
                return f.__concrete__(x, *a)
            out = _np.empty(x.shape, dtype=object)
            for idx, v in _np.ndenumerate(x):
                out[idx] = g(v, *a)
            return out
        if isinstance(x, SR):
            if x.is_const():
                # keep exact-constant mode symbolic: the value of exp/Ei at a rational is not rational
                return f(x, *a)
            return f(x, *a)
        return f.__concrete__(x, *a)
    return g


def uf_model(name, concrete, odd=False):
    """Uninterpreted function `name` on canonical arguments; odd functions are sign-normalised."""
    def f(x):
        x = SR.lift(x)
        if odd:
            if not x.p:
                return SR.const(0)
            lead = sorted(x.p.items())[0][1]
            if lead < 0:
                return -engine().apply(name, -x)
        return engine().apply(name, x)
    f.__concrete__ = concrete
    return _vec(f)


def sqrt_model(x):
    if isinstance(x, _np.ndarray):
        if x.dtype != object:
            return _np.sqrt(x)
        out = _np.empty(x.shape, dtype=object)
        for idx, v in _np.ndenumerate(x):
            out[idx] = sqrt_model(v)
        return out
    if isinstance(x, SR):
        return x.sqrt()
    return math.sqrt(x)


class _FloatMeta(type):
    def __instancecheck__(cls, obj):
        return isinstance(obj, builtins.float)

    def __subclasscheck__(cls, sub):
        return issubclass(sub, builtins.float)


class float_model(builtins.float, metaclass=_FloatMeta):
    """Stands in for the builtin `float` in a module: float(x) is the identity on symbolic scalars and the builtin
    conversion otherwise; isinstance(v, float) keeps its meaning; as a dtype it maps to object (so arrays can hold
    symbolic entries)."""
    def __new__(cls, x=0.0):
        if isinstance(x, SR):
            return x
        if hasattr(x, 'x') and type(x).__name__ == 'AbsSq':
            return builtins.abs(x.x)
        return builtins.float(x)


def abs_model(x):
    return builtins.abs(x)


def isclose_model(a, b, rel_tol=1e-09, abs_tol=0.0):
    """math.isclose: |a-b| <= max(rel_tol*max(|a|,|b|), abs_tol).  ndarray arguments first go through
    NumPy's own scalar conversion (so the NumPy 2 TypeError for 1-element arrays is reproduced)."""
    def scal(v):
        if isinstance(v, _np.ndarray):
            if v.dtype == object:
                if v.ndim > 0:
                    raise TypeError('only 0-dimensional arrays can be converted to Python scalars')
                return v.item()
            return float(v)  # NumPy decides (raises TypeError for ndim > 0 under NumPy >= 2.?)
        return v
    a, b = scal(a), scal(b)
    if not (is_sym(a) or is_sym(b)):
        return math.isclose(a, b, rel_tol=rel_tol, abs_tol=abs_tol)
    d = builtins.abs(a - b)
    m = builtins.max(builtins.abs(SR.lift(a)), builtins.abs(SR.lift(b)))
    bound = m * rel_tol
    if abs_tol and bound < abs_tol:
        bound = SR.lift(abs_tol)
    return bool(d <= bound)


def fsum_model(xs):
    xs = list(xs)
    if not any(is_sym(x) for x in xs):
        return math.fsum(xs)
    tot = SR.const(0)
    for x in xs:
        tot = tot + x
    return tot


def select_model(condlist, choicelist, default=0):
    """np.select: elementwise, first condition that holds wins, else default."""
    if not (_has_sym(condlist) or _has_sym(choicelist)):
        return _np.select(condlist, choicelist, default)
    choices = [_np.asarray(c, dtype=object) if not isinstance(c, _np.ndarray) else c for c in choicelist]
    shape = _np.broadcast(*choices).shape
    out = _np.empty(shape, dtype=object)
    conds = [(_np.broadcast_to(_np.asarray(c, dtype=object), shape)) for c in condlist]
    chs = [_np.broadcast_to(c, shape) for c in choices]
    for idx in _np.ndindex(*shape):
        val = default
        for c, ch in zip(conds, chs):
            if c[idx]:  # symbolic truth value -> forks
                val = ch[idx]
                break
        out[idx] = val
    return out


def all_model(x, *a, **k):
    if isinstance(x, SB):
        return bool(x)
    if isinstance(x, _np.ndarray) and x.dtype == object:
        return builtins.all(bool(v) for v in x.flat)
    return _np.all(x, *a, **k)


def norm_model(x, *a, **k):
    if not _has_sym(x):
        return _np.linalg.norm(x, *a, **k)
    if a or k:
        raise Inconclusive('np.linalg.norm with axis on symbolic data is not modelled')
    tot = SR.const(0)
    for v in _np.asarray(x, dtype=object).flat:
        tot = tot + v * v
    return tot.sqrt()


def array_model(obj, dtype=None, *a, **k):
    """np.array that keeps symbolic entries (object dtype) even when a float dtype is requested."""
    if _has_sym(obj):
        return _np.array(obj, dtype=object)
    return _np.array(obj, dtype=dtype, *a, **k) if dtype is not None else _np.array(obj, *a, **k)


ARGSORT_TIES = []


def argsort_model(a, axis=-1, kind=None, **k):
    """np.argsort under its documented contract: the default kind is not stable, so the order of tied keys is
    unspecified (it depends on the array length and on the SIMD kernels of the build).  Keys are ordered through the
    engine's decisions; for every group of tied keys the model may return them in index order or reversed (a
    decision of the exploration), and records that it did so."""
    from .sym import engine
    keys = list(_np.asarray(a, dtype=object).reshape(-1))
    idx = []
    for i, v in enumerate(keys):          # stable insertion sort
        pos = len(idx)
        while pos > 0 and bool(v < keys[idx[pos - 1]]):
            pos -= 1
        idx.insert(pos, i)
    if kind in ('stable', 'mergesort'):
        return _np.array(idx, dtype=int)
    out, g = [], [idx[0]] if idx else []
    groups = []
    for j in idx[1:]:
        if bool(keys[j] == keys[g[-1]]):
            g.append(j)
        else:
            groups.append(g)
            g = [j]
    if g:
        groups.append(g)
    for g in groups:
        if len(g) >= 2 and engine().choice(2) == 1:
            ARGSORT_TIES.append(tuple(g))
            g = g[::-1]
        out.extend(g)
    return _np.array(out, dtype=int)


class SymArray(_np.ndarray):
    """Object array standing in for a float array: storing a *non-scalar* into a single element is delegated to
    NumPy's own rule for float arrays (NumPy 2 refuses `a[i] = array([v])` with "setting an array element with a
    sequence"), so that this class of failure is reproduced rather than hidden by the object dtype."""
    def __setitem__(self, key, value):
        if isinstance(value, _np.ndarray) and value.ndim >= 1:
            try:
                single = _np.ndim(_np.ndarray.__getitem__(self, key)) == 0
            except Exception:
                single = False
            if single:
                probe = _np.zeros(1)
                probe[0] = _np.zeros(value.shape)   # NumPy decides (raises ValueError for a sequence)
                value = value.reshape(-1)[0]
        _np.ndarray.__setitem__(self, key, value)


def zeros_model(shape, dtype=None, *a, **k):
    """np.zeros that can hold symbolic entries (object array of exact 0) with float-array assignment rules."""
    out = _np.empty(shape, dtype=object).view(SymArray)
    out.fill(0)
    return out


class _Linalg:
    def __init__(self, overrides):
        self._o = overrides

    def __getattr__(self, n):
        if n in self._o:
            return self._o[n]
        return getattr(_np.linalg, n)


class NpProxy:
    """Stands in for the module global `np`: forwards everything to NumPy except the listed names."""
    def __init__(self, overrides=None, linalg=None):
        self._o = dict(overrides or {})
        self.linalg = _Linalg(dict(linalg or {}))

    def __getattr__(self, n):
        o = self.__dict__.get('_o', {})
        if n in o:
            return o[n]
        return getattr(_np, n)


def noprint(*a, **k):
    pass


class SqrtTerm:
    """coef * sqrt(rad) with coef, rad >= 0, kept unevaluated: comparisons between two such terms (or with a
    scalar) are decided on the squares, which is exact over the reals and keeps the queries polynomial."""
    __slots__ = ('coef', 'rad')

    def __init__(self, rad, coef=None):
        self.rad = SR.lift(rad)
        self.coef = SR.const(1) if coef is None else SR.lift(coef)

    def __mul__(self, o):
        o = SR.lift(o)
        if o is None:
            return NotImplemented
        if o < 0:
            raise Inconclusive('negative multiple of an unevaluated square root')
        return SqrtTerm(self.rad, self.coef * o)

    __rmul__ = __mul__

    def _sq(self):
        return self.coef * self.coef * self.rad

    def _cmp(self, o, op):
        if isinstance(o, SqrtTerm):
            a, b = self._sq(), o._sq()
        else:
            o = SR.lift(o)
            if o is None:
                return NotImplemented
            if o < 0:
                return op in ('>', '>=', '!=')
            a, b = self._sq(), o * o
        return {'<': a < b, '<=': a <= b, '>': a > b, '>=': a >= b, '==': a == b, '!=': a != b}[op]

    def __lt__(self, o):
        return self._cmp(o, '<')

    def __le__(self, o):
        return self._cmp(o, '<=')

    def __gt__(self, o):
        return self._cmp(o, '>')

    def __ge__(self, o):
        return self._cmp(o, '>=')


def sqrt_term_model(x):
    """np.sqrt for scalar arguments that are only compared afterwards (Doerfler's sanity assertion)."""
    if isinstance(x, SR):
        if x < 0:
            raise ValueError('sqrt of a negative value')
        return SqrtTerm(x)
    return _np.sqrt(x)


def sqrt_term_unchecked(x):
    """np.sqrt kept unevaluated without deciding the sign of the radicand (its non-negativity is a separate
    property - C13 for the energy norm); callers compare the radicand."""
    if isinstance(x, SR):
        return SqrtTerm(x)
    return _np.sqrt(x)


class ThetaModel:
    """The marking parameter theta in (0,1), carried as q = theta^2 (a symbolic real): theta**2 -> q and
    theta * sqrt(x) -> sqrt(q*x); nothing else is defined, so any other use of theta is reported."""
    def __init__(self, q):
        self.q = q

    def __pow__(self, e):
        if e == 2:
            return self.q
        raise Inconclusive('theta used with exponent %r' % (e, ))

    def __mul__(self, o):
        if isinstance(o, SqrtTerm):
            return SqrtTerm(o.rad * self.q, o.coef)
        raise Inconclusive('theta multiplied by %r (only theta**2 and theta*sqrt(.) are modelled)' % (o, ))

    __rmul__ = __mul__

    def __format__(self, spec):
        return 'theta'

    def __repr__(self):
        return 'theta'
