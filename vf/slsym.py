"""Shared harness code for the single-layer operator properties (C01, C03, C04, C07, C11, C12, C17, C20):
loading src.single_layer with the models of vf/models.py bound in, stand-in elements with symbolic time
(and/or space) intervals, recording stand-ins for the quadrature schemes."""
import importlib
import math
import types

import numpy as np
import scipy.special

from . import models
from .sym import SR, engine


class MathProxy:
    def __init__(self, overrides):
        self._o = overrides

    def __getattr__(self, n):
        o = self.__dict__.get('_o', {})
        if n in o:
            return o[n]
        return getattr(math, n)


_expi = models.uf_model('Ei', scipy.special.expi)
_exp1 = models.uf_model('E1', scipy.special.exp1)
_erf = models.uf_model('erf', scipy.special.erf, odd=True)
_erfc_c = scipy.special.erfc


def _exp(x):
    if isinstance(x, SR):
        if not x.p:
            return SR.const(1)
        return engine().apply('exp', x)
    if isinstance(x, np.ndarray) and x.dtype == object:
        out = np.empty(x.shape, dtype=object)
        for idx, v in np.ndenumerate(x):
            out[idx] = _exp(v)
        return out
    return np.exp(x)


def _mexp(x):
    if isinstance(x, SR):
        return _exp(x)
    return math.exp(x)


def load_sl():
    """src.single_layer and src.single_layer_exact with exp/Ei/erf uninterpreted, sqrt algebraic,
    math.isclose / fsum modelled, np.zeros able to hold symbolic entries, print silenced."""
    SL = importlib.import_module('src.single_layer')
    SLE = importlib.import_module('src.single_layer_exact')
    Q = importlib.import_module('src.quadrature')
    npx = models.NpProxy(dict(exp=_exp, sqrt=models.sqrt_model, zeros=models.zeros_model, array=models.array_model))
    SL.np = npx
    SL.expi = _expi
    SL.erf = _erf
    SL.sqrt = models.sqrt_model
    SL.math = MathProxy(dict(isclose=models.isclose_model, sqrt=models.sqrt_model))
    SL.print = models.noprint
    SLE.np = models.NpProxy(dict(exp=_exp, sqrt=models.sqrt_model, sign=np.sign))
    SLE.expi = _expi
    SLE.erf = _erf
    SLE.exp = _mexp
    SLE.sqrt = models.sqrt_model
    SLE.fsum = models.fsum_model
    return SL, SLE, Q


class Vtx:
    def __init__(self, t, x):
        self.t, self.x = t, x


class Elem:
    """Stand-in element: exactly the attributes the operator reads (the repository's own DummyElement is such a
    stand-in too).  Time and space intervals may be symbolic."""
    _n = 0

    def __init__(self, t0, t1, x0, x1, gamma_space, name=None):
        self.time_interval = (t0, t1)
        self.space_interval = (x0, x1)
        self.gamma_space = gamma_space
        self.vertices = [Vtx(t0, x0), Vtx(t0, x1), Vtx(t1, x1), Vtx(t1, x0)]
        self.h_t = t1 - t0
        self.h_x = x1 - x0
        self.parent = None
        self.children = []
        self.levels = (0, 0)
        Elem._n += 1
        self.glob_idx = Elem._n
        self.name = name or 'E%d' % Elem._n

    def __repr__(self):
        return 'Elem(t=%r, x=%r)' % (self.time_interval, self.space_interval)


def exact(x):
    """Exact-constant mode: a double as the exact rational it is."""
    return SR.const(x)


def exact_array(a):
    a = np.asarray(a)
    out = np.empty(a.shape, dtype=object)
    for idx, v in np.ndenumerate(a):
        out[idx] = SR.const(float(v))
    return out


def curve_pieces(name):
    """Concrete curve of the repository (constructed on plain NumPy)."""
    P = importlib.import_module('src.parametrization')
    return getattr(P, name)()


def space_leaves(gamma, per_piece=1):
    """(x0, x1, piece callable) for a uniform subdivision of every piece into `per_piece` cells; the one-piece
    circle gets 4*per_piece cells (what MeshParametrized creates)."""
    out = []
    starts = list(gamma.pw_start)
    for i, g in enumerate(gamma.pw_gamma):
        n = per_piece * (4 if len(gamma.pw_gamma) == 1 else 1)
        a, b = starts[i], starts[i + 1]
        for k in range(n):
            out.append((a + (b - a) * k / n, a + (b - a) * (k + 1) / n, g))
    return out


class FakeMesh:
    def __init__(self, gamma, leaves=()):
        self.gamma_space = gamma
        self.glue_space = gamma.closed
        self.leaf_elements = list(leaves)


class Recorder:
    """Recording stand-in for a 2-D scheme: logs (rule, mirror, box) and returns 0."""
    def __init__(self, log, rule, mirror=''):
        self.log, self.rule, self.mirror = log, rule, mirror

    def mirror_x(self):
        return Recorder(self.log, self.rule, self.mirror + 'x')

    def mirror_y(self):
        return Recorder(self.log, self.rule, self.mirror + 'y')

    def integrate(self, f, a, b, c, d):
        self.log.append((self.rule, self.mirror, (a, b, c, d)))
        return 0


class unpatched:
    """Context manager: the repository modules exactly as imported (real numpy / scipy / math bindings) for
    concrete replays; the models are bound in again on exit."""
    NAMES = {'src.single_layer': dict(np=np, expi=scipy.special.expi, erf=scipy.special.erf, sqrt=math.sqrt,
                                      math=math),
             'src.single_layer_exact': dict(np=np, expi=scipy.special.expi, erf=scipy.special.erf, exp=math.exp,
                                            sqrt=math.sqrt, fsum=math.fsum)}

    def __enter__(self):
        self.saved = {}
        for mn, names in self.NAMES.items():
            mod = importlib.import_module(mn)
            self.saved[mn] = {k: mod.__dict__.get(k) for k in names}
            for k, v in names.items():
                setattr(mod, k, v)
        return self

    def __exit__(self, *a):
        for mn, names in self.saved.items():
            mod = importlib.import_module(mn)
            for k, v in names.items():
                setattr(mod, k, v)
