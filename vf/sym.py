"""Engine S: symbolic execution of the repository's own Python by operator overloading.

A symbolic scalar (`SR`) is a polynomial with exact rational coefficients over *atoms*; an atom is
an input variable (a z3 Real constant), an application of an uninterpreted function to canonical
polynomial arguments (exp, Ei, E1, erf, gamma components ...), the reciprocal of a non-constant
polynomial, or an algebraic square root.  Arithmetic is done on this normal form (so two ways of
computing the same polynomial give the same object up to ordering); every *decision* the code takes
on such a value - `if a < b`, `assert`, `min`, `sorted`, tuple comparison - is turned into a z3
formula and both outcomes are checked for feasibility under the current path condition.  The
driver (`Engine.explore`) re-runs the function under test once per feasible path (depth-first,
decision replay, no state copying).  Postconditions are discharged with `Engine.prove`, which asks
z3 for a model of `path condition and not claim`.

Nothing in here knows anything about stbem.
"""
import itertools
import math
import os
import subprocess
import sys
import tempfile
import time
import traceback
from fractions import Fraction

import z3

_ENGINE = None


def engine():
    return _ENGINE


class PathAbort(BaseException):
    """Raised to abandon the current path (infeasible assumption / hypothesis site)."""


class Inconclusive(Exception):
    """Solver said unknown, or a budget / unwinding bound was exhausted."""


# ----------------------------------------------------------------------------------------------
# Polynomials over atoms
# ----------------------------------------------------------------------------------------------
def _frac(x):
    if isinstance(x, Fraction):
        return x
    if isinstance(x, bool):
        return Fraction(int(x))
    if isinstance(x, int):
        return Fraction(x)
    if isinstance(x, float):
        if x != x or x in (float('inf'), float('-inf')):
            raise Inconclusive('non-finite float constant in symbolic arithmetic')
        return Fraction(x)
    # numpy scalars
    try:
        import numpy as np
        if isinstance(x, np.integer):
            return Fraction(int(x))
        if isinstance(x, np.floating):
            return Fraction(float(x))
        if isinstance(x, np.bool_):
            return Fraction(int(x))
    except ImportError:
        pass
    return None


class SR:
    """Symbolic real: dict monomial -> Fraction, monomial = tuple of (atom_id, power) sorted."""
    __slots__ = ('p', '_z3')

    def __init__(self, p):
        self.p = p
        self._z3 = None

    # -- construction ---------------------------------------------------------------------
    @staticmethod
    def const(c):
        c = _frac(c)
        return SR({(): c} if c != 0 else {})

    @staticmethod
    def lift(x):
        if isinstance(x, SR):
            return x
        c = _frac(x)
        if c is None:
            return None
        return SR.const(c)

    def is_const(self):
        return not self.p or (len(self.p) == 1 and () in self.p)

    def const_value(self):
        return self.p.get((), Fraction(0))

    def key(self):
        return tuple(sorted(self.p.items()))

    # -- arithmetic -------------------------------------------------------------------------
    def __add__(self, o):
        o = SR.lift(o)
        if o is None:
            return NotImplemented
        if not o.p:
            return self
        if not self.p:
            return o
        r = dict(self.p)
        for m, c in o.p.items():
            v = r.get(m, 0) + c
            if v == 0:
                r.pop(m, None)
            else:
                r[m] = v
        return SR(r)

    __radd__ = __add__

    def __neg__(self):
        return SR({m: -c for m, c in self.p.items()})

    def __pos__(self):
        return self

    def __sub__(self, o):
        o = SR.lift(o)
        if o is None:
            return NotImplemented
        return self + (-o)

    def __rsub__(self, o):
        o = SR.lift(o)
        if o is None:
            return NotImplemented
        return o + (-self)

    def __mul__(self, o):
        o = SR.lift(o)
        if o is None:
            return NotImplemented
        if not self.p or not o.p:
            return SR({})
        if o.is_const():
            c = o.const_value()
            return self if c == 1 else SR({m: k * c for m, k in self.p.items()})
        if self.is_const():
            c = self.const_value()
            return o if c == 1 else SR({m: k * c for m, k in o.p.items()})
        r = {}
        for m1, c1 in self.p.items():
            for m2, c2 in o.p.items():
                m = _mono_mul(m1, m2)
                v = r.get(m, 0) + c1 * c2
                if v == 0:
                    r.pop(m, None)
                else:
                    r[m] = v
        return SR(r)

    __rmul__ = __mul__

    def recip(self):
        if self.is_const():
            c = self.const_value()
            if c == 0:
                raise ZeroDivisionError('symbolic division by the constant 0')
            return SR.const(1 / c)
        # single monomial: invert coefficient and powers
        if len(self.p) == 1:
            (m, c), = self.p.items()
            return SR({tuple((a, -k) for a, k in m): 1 / c})
        # normalise: leading coefficient (first monomial in sorted order) = 1
        items = sorted(self.p.items())
        lead = items[0][1]
        norm = SR({m: c / lead for m, c in items})
        a = engine().atom(('recip', norm.key()), lambda: 1 / norm.z3())
        return SR({((a, 1), ): 1 / lead})

    def __truediv__(self, o):
        o = SR.lift(o)
        if o is None:
            return NotImplemented
        return self * o.recip()

    def __rtruediv__(self, o):
        o = SR.lift(o)
        if o is None:
            return NotImplemented
        return o * self.recip()

    def __pow__(self, e):
        if isinstance(e, SR):
            if not e.is_const():
                raise Inconclusive('symbolic exponent')
            e = e.const_value()
        e = _frac(e)
        if e is None:
            return NotImplemented
        if e != 1 and engine() is not None:
            for (ee, base, patom) in engine()._pow_hooks:
                if ee != e:
                    ratio = _const_ratio(self, base)
                    if ratio is not None:
                        # base**e would be related to the atom standing for base**ee only through base itself,
                        # which the registered-power model leaves unconstrained
                        raise Inconclusive('power %s of a quantity whose power %s is a registered atom' % (e, ee))
        if e.denominator == 1:
            n = int(e)
            if n < 0:
                return (self**(-n)).recip()
            r = SR.const(1)
            b = self
            while n:
                if n & 1:
                    r = r * b
                b = b * b
                n >>= 1
            return r
        if e.denominator == 2:
            # registered power (a fresh positive atom standing for base**e): c*base -> c**e * atom, where c**e is a
            # rational multiple of the square root of a square-free integer (algebraic constant atom)
            eng = engine()
            for (ee, base, patom) in eng._pow_hooks:
                if ee == e:
                    ratio = _const_ratio(self, base)
                    if ratio is not None and ratio > 0:
                        return patom * eng.const_pow(ratio, e)
            s = self.sqrt()
            n = int(e.numerator)
            return s**n
        raise Inconclusive('fractional power %s outside the algebraic model' % e)

    def __mod__(self, m):
        return engine().mod(self, m)

    def __round__(self, ndigits=None):
        return engine().round(self, ndigits)

    def sqrt(self):
        return engine().sqrt(self)

    def exp(self):
        return engine().apply('exp', self)

    def cos(self):
        return engine().apply('cos', self)

    def sin(self):
        return engine().apply('sin', self)

    def __abs__(self):
        if self < 0:
            return -self
        return self

    # -- comparisons --------------------------------------------------------------------------
    def _cmp(self, o, op):
        o = SR.lift(o)
        if o is None:
            return NotImplemented
        d = self - o
        if d.is_const():
            c = d.const_value()
            return {'<': c < 0, '<=': c <= 0, '==': c == 0, '!=': c != 0, '>': c > 0, '>=': c >= 0}[op]
        return SB.from_cmp(d, op)

    def __lt__(self, o):
        return self._cmp(o, '<')

    def __le__(self, o):
        return self._cmp(o, '<=')

    def __gt__(self, o):
        return self._cmp(o, '>')

    def __ge__(self, o):
        return self._cmp(o, '>=')

    def __eq__(self, o):
        if o is self:
            return True
        r = self._cmp(o, '==')
        return False if r is NotImplemented else r

    def __ne__(self, o):
        if o is self:
            return False
        r = self._cmp(o, '!=')
        return True if r is NotImplemented else r

    def __hash__(self):
        # Values built from a non-injective model function (round) may be equal although they are written
        # differently: they all hash alike, so that a dict / set keyed by them compares with == (a fork the solver
        # decides) instead of silently treating them as different keys.
        eng = _ENGINE
        if eng is not None and eng._has_round:
            for m in self.p:
                for a, _k in m:
                    if eng._atoms[a][0][0] == 'round':
                        return 7
        return hash(self.key())

    def __bool__(self):
        r = self != 0
        return bool(r)

    # -- conversions --------------------------------------------------------------------------
    def z3(self):
        if self._z3 is None:
            eng = engine()
            terms = []
            for m, c in sorted(self.p.items()):
                fs = []
                for a, k in m:
                    za = eng.atom_z3(a)
                    if k > 0:
                        fs.extend([za] * k)
                    else:
                        fs.extend([1 / za] * (-k))
                t = z3.RealVal(str(c))
                if fs:
                    prod = fs[0]
                    for f in fs[1:]:
                        prod = prod * f
                    t = prod if c == 1 else t * prod
                terms.append(t)
            self._z3 = z3.Sum(terms) if len(terms) > 1 else (terms[0] if terms else z3.RealVal(0))
        return self._z3

    def atoms(self):
        return {a for m in self.p for a, _ in m}

    def evalf(self, env):
        """Concrete evaluation with `env`: atom_id -> float/Fraction (for replay)."""
        tot = 0
        for m, c in self.p.items():
            t = c
            for a, k in m:
                t = t * env(a)**k
            tot = tot + t
        return tot

    def __repr__(self):
        if self.is_const():
            c = self.const_value()
            return str(c) if c.denominator == 1 else '%s' % float(c)
        eng = engine()
        parts = []
        for m, c in sorted(self.p.items()):
            s = '*'.join((eng.atom_name(a) + ('' if k == 1 else '^%d' % k)) for a, k in m)
            if not s:
                parts.append(str(c))
            elif c == 1:
                parts.append(s)
            else:
                parts.append('%s*%s' % (c, s))
        return '(' + ' + '.join(parts) + ')'

    def __format__(self, spec):
        return repr(self)


def _mono_mul(m1, m2):
    if not m1:
        return m2
    if not m2:
        return m1
    d = dict(m1)
    for a, k in m2:
        v = d.get(a, 0) + k
        if v == 0:
            d.pop(a, None)
        else:
            d[a] = v
    return tuple(sorted(d.items()))


class SB:
    """Symbolic boolean wrapping a z3 BoolRef.  `bool()` forks the exploration."""
    __slots__ = ('e', 'k')

    def __init__(self, e, k=None):
        self.e = e
        self.k = k if k is not None else ('z3', e.get_id())

    @staticmethod
    def from_cmp(d, op):
        # canonical key so that the same comparison is recognised again on the path
        items = sorted(d.p.items())
        lead = items[0][1]
        if lead < 0:
            d = -d
            op = {'<': '>', '<=': '>=', '>': '<', '>=': '<=', '==': '==', '!=': '!='}[op]
        k = (d.key(), op)
        eng = engine()
        e = eng._cmp_cache.get(k)
        if e is None:
            z = d.z3()
            e = {'<': z < 0, '<=': z <= 0, '==': z == 0, '!=': z != 0, '>': z > 0, '>=': z >= 0}[op]
            eng._cmp_cache[k] = e
        return SB(e, k)

    def __bool__(self):
        return engine().decide(self)

    def __int__(self):
        return int(bool(self))

    def __index__(self):
        return int(bool(self))

    def __and__(self, o):
        if isinstance(o, SB):
            return SB(z3.And(self.e, o.e))
        if isinstance(o, (bool, )) or _frac(o) is not None:
            return self if o else False
        return NotImplemented

    __rand__ = __and__

    def __or__(self, o):
        if isinstance(o, SB):
            return SB(z3.Or(self.e, o.e))
        if isinstance(o, (bool, )) or _frac(o) is not None:
            return True if o else self
        return NotImplemented

    __ror__ = __or__

    def __xor__(self, o):
        if isinstance(o, SB):
            return SB(z3.Xor(self.e, o.e))
        if isinstance(o, (bool, )) or _frac(o) is not None:
            return ~self if o else self
        return NotImplemented

    __rxor__ = __xor__

    def __invert__(self):
        return SB(z3.Not(self.e))

    def __repr__(self):
        return 'SB(%s)' % self.e


def z3bool(x):
    """z3 formula of a (symbolic or concrete) truth value."""
    if isinstance(x, SB):
        return x.e
    if isinstance(x, z3.BoolRef):
        return x
    return z3.BoolVal(bool(x))


def z3real(x):
    if isinstance(x, SR):
        return x.z3()
    if isinstance(x, z3.ExprRef):
        return x
    return z3.RealVal(str(_frac(x)))


# ----------------------------------------------------------------------------------------------
class _Dec:
    __slots__ = ('taken', 'remaining', 'kind')

    def __init__(self, taken, remaining, kind):
        self.taken = taken
        self.remaining = remaining
        self.kind = kind


class PathResult:
    def __init__(self, status, value, decisions, exc=None, tb=None):
        self.status = status  # 'ok' | 'pruned' | 'exc'
        self.value = value
        self.decisions = decisions
        self.exc = exc
        self.tb = tb


class Engine:
    def __init__(self, timeout_ms=20000, max_paths=200000, max_decisions=20000, logic=None, seed=0):
        global _ENGINE
        self._prev_engine = _ENGINE
        _ENGINE = self
        self.solver = z3.SolverFor(logic) if logic else z3.Solver()
        self.solver.set('timeout', timeout_ms)
        try:
            self.solver.set('random_seed', seed)
        except z3.Z3Exception:
            pass
        self.timeout_ms = timeout_ms
        self.max_paths = max_paths
        self.max_decisions = max_decisions
        self._atoms = []  # id -> (key, z3 expr, name)
        self._atom_by_key = {}
        self._cmp_cache = {}
        self._ufs = {}
        self._sqrt_of = {}  # poly key -> SR root
        self._pow_hooks = []  # (exponent, base SR, atom SR)
        self.split_const_sqrt = False  # sqrt(c*a^2) = sqrt(c)*|a| with sqrt(c) an algebraic constant (opt-in)
        self.inputs = []  # (name, atom_id)
        self.stack = []
        self.choice_prefix = []
        self.choice_log = []
        self.pos = 0
        self.decided = {}
        self.path_cond = []
        self.axioms = []  # z3 formulas asserted on every path (documented per harness)
        self._has_round = False
        self.hyp_sites = set()  # (filename suffix, lineno) of asserts treated as hypotheses
        self.stats = dict(paths=0, pruned=0, branch_queries=0, verdict_queries=0, solver_s=0.0, forks=0,
                          verdict_unsat=0, verdict_sat=0, verdict_trivial=0)
        self.smt2_log = None  # list collecting verdict queries as SMT-LIB2 (second-solver re-check)
        # second solver: in the thorough tier a sample of the verdict queries of every engine is re-discharged with the
        # cvc5 binary; a disagreement makes the run inconclusive, a cvc5 timeout is only counted
        self.second_limit = 12 if os.environ.get('VERIF_TIER') == 'thorough' and not os.environ.get('VERIF_NO_CVC5') else 0
        self.stats.update(cvc5_rechecked=0, cvc5_agree=0, cvc5_unknown=0)
        self.in_run = False

    def close(self):
        """Restores the engine that was current before this one was created (nested use in replays)."""
        global _ENGINE
        if _ENGINE is self:
            _ENGINE = self._prev_engine

    def __enter__(self):
        return self

    def __exit__(self, *a):
        self.close()

    # -- atoms ------------------------------------------------------------------------------
    def atom(self, key, mk_z3, name=None):
        a = self._atom_by_key.get(key)
        if a is None:
            a = len(self._atoms)
            self._atom_by_key[key] = a
            self._atoms.append([key, None, name, mk_z3])
        return a

    def atom_z3(self, a):
        ent = self._atoms[a]
        if ent[1] is None:
            ent[1] = ent[3]()
        return ent[1]

    def atom_name(self, a):
        ent = self._atoms[a]
        if ent[2]:
            return ent[2]
        k = ent[0]
        if k[0] == 'uf':
            return '%s(%s)' % (k[1], ','.join(repr(SR(dict(x))) for x in k[2]))
        if k[0] == 'recip':
            return '1/%r' % SR(dict(k[1]))
        if k[0] == 'sqrt':
            return 'sqrt%r' % SR(dict(k[1]))
        return str(k)

    def atom_key(self, a):
        return self._atoms[a][0]

    def real(self, name):
        a = self.atom(('var', name), lambda: z3.Real(name), name)
        if (name, a) not in self.inputs:
            self.inputs.append((name, a))
        return SR({((a, 1), ): Fraction(1)})

    def reals(self, names):
        return [self.real(n) for n in names.split()]

    def uf(self, name, arity=1):
        f = self._ufs.get(name)
        if f is None:
            f = z3.Function(name, *([z3.RealSort()] * (arity + 1)))
            self._ufs[name] = f
        return f

    def apply(self, name, *args):
        """Uninterpreted function application on canonical arguments."""
        args = [SR.lift(a) for a in args]
        f = self.uf(name, len(args))
        key = ('uf', name, tuple(a.key() for a in args))
        a = self.atom(key, lambda: f(*[x.z3() for x in args]))
        return SR({((a, 1), ): Fraction(1)})

    def mod(self, x, m):
        """x % m for a positive constant modulus: x - m*q with a fresh integer q and 0 <= x - m*q < m."""
        x, m = SR.lift(x), SR.lift(m)
        if not m.is_const() or m.const_value() <= 0:
            raise Inconclusive('modulo by a symbolic or non-positive value')
        if x.is_const():
            return SR.const(x.const_value() % m.const_value())
        n = len([1 for k in self._atom_by_key if k[0] == 'modq'])
        qi = z3.Int('modq!%d' % n)
        a = self.atom(('modq', n), lambda: z3.ToReal(qi), 'q%d' % n)
        q = SR({((a, 1), ): Fraction(1)})
        r = x - m * q
        ax = z3.And(r.z3() >= 0, r.z3() < m.z3())
        self.axioms.append(ax)
        if self.in_run:
            self.solver.add(ax)
        return r

    def round(self, x, ndigits=None):
        """round(x, n): k / 10^n with an integer k (one per distinct argument) and |x * 10^n - k| <= 1/2.  Ties may go
        either way (Python rounds the binary value half-to-even): an over-approximation, so a candidate that rests
        on a tie direction is settled by the float replay."""
        x = SR.lift(x)
        nd = int(ndigits or 0)
        scale = Fraction(10)**nd
        if x.is_const():
            return SR.const(Fraction(round(x.const_value() * scale)) / scale)
        key = ('round', x.key(), nd)
        self._has_round = True
        n = len([1 for k in self._atom_by_key if k[0] == 'round'])
        if n >= 16 and key not in self._atom_by_key:
            # containers keyed by rounded values compare pairwise (see SR.__hash__): beyond a few dozen distinct
            # rounded values an exploration does not end in useful time - give up honestly instead
            raise Inconclusive('more than 16 distinct rounded values on one engine (round model)')
        ki = z3.Int('roundk!%d' % n)
        fresh = key not in self._atom_by_key
        a = self.atom(key, lambda: z3.ToReal(ki), 'rnd%d' % n)
        k = SR({((a, 1), ): Fraction(1)})
        if fresh:
            d = x * scale - k
            ax = z3.And(d.z3() >= z3.RealVal('-1/2'), d.z3() <= z3.RealVal('1/2'))
            self.axioms.append(ax)
            if self.in_run:
                self.solver.add(ax)
        return k / scale

    def register_pow(self, base, e, patom):
        """patom (a positive atom of the harness) stands for base**e, e = n/2: sound and complete as long as no
        comparison relates base to patom other than through this power (then base = patom**(1/e) exists)."""
        ent = (_frac(e), SR.lift(base), patom)
        if not any(h[0] == ent[0] and h[1].key() == ent[1].key() for h in self._pow_hooks):
            self._pow_hooks.append(ent)

    def const_pow(self, c, e):
        """c**e for a positive rational c and e = n/2 as rational * sqrt(square-free integer)."""
        n = int(e.numerator)
        half = (n - 1) // 2 if n > 0 else -((-n + 1) // 2)
        # sqrt(a/b) = sqrt(a*b)/b, a*b = s*s*k
        a, b = c.numerator, c.denominator
        k, sq = a * b, 1
        for q in (2, 3, 5, 7, 11, 13):
            while k % (q * q) == 0:
                k //= q * q
                sq *= q
        r = math.isqrt(k)
        if r * r == k:
            sq, k = sq * r, 1
        coef = c**half * Fraction(sq, b)
        if k == 1:
            return SR.const(coef)
        return self.sqrt(SR.const(k)) * coef

    def register_sqrt(self, square, root):
        self._sqrt_of[square.key()] = root

    def sqrt(self, x):
        x = SR.lift(x)
        if x.is_const():
            c = x.const_value()
            if c < 0:
                raise ValueError('math domain error')
            n, d = c.numerator, c.denominator
            rn, rd = math.isqrt(n), math.isqrt(d)
            if rn * rn == n and rd * rd == d:
                return SR.const(Fraction(rn, rd))
            # irrational constant: algebraic atom
            key = ('sqrt', x.key())
            a = self.atom(key, lambda: self._mk_sqrt_z3(x))
            return SR({((a, 1), ): Fraction(1)})
        r = self._sqrt_of.get(x.key())
        if r is not None:
            return r
        # scalar multiple of a registered square?  c*q with sqrt(c) rational
        for k, root in list(self._sqrt_of.items()):
            sq = SR(dict(k))
            ratio = _const_ratio(x, sq)
            if ratio is not None and ratio > 0:
                n, d = ratio.numerator, ratio.denominator
                rn, rd = math.isqrt(n), math.isqrt(d)
                if rn * rn == n and rd * rd == d:
                    return root * Fraction(rn, rd)
        # single monomial with even powers and square coefficient
        if len(x.p) == 1:
            (m, c), = x.p.items()
            if all(k % 2 == 0 for _, k in m) and c > 0:
                n, d = c.numerator, c.denominator
                rn, rd = math.isqrt(n), math.isqrt(d)
                if rn * rn == n and rd * rd == d:
                    # sqrt(a^2) = |a|: only valid for atoms known non-negative -> ask the solver
                    root = SR({tuple((a, k // 2) for a, k in m): Fraction(rn, rd)})
                    if root >= 0:
                        return root
                    return -root
                if self.split_const_sqrt:
                    # c not a square: sqrt(c) = rational * sqrt(square-free k), one algebraic constant atom per k
                    root = SR({tuple((a, k // 2) for a, k in m): Fraction(1)})
                    if root >= 0:
                        return root * self.const_pow(c, Fraction(1, 2))
                    return -root * self.const_pow(c, Fraction(1, 2))
        key = ('sqrt', x.key())
        a = self.atom(key, lambda: self._mk_sqrt_z3(x))
        return SR({((a, 1), ): Fraction(1)})

    def _mk_sqrt_z3(self, x):
        r = z3.FreshReal('sqrt')
        self.axioms.append(z3.And(r >= 0, r * r == x.z3()))
        if self.in_run:
            self.solver.add(self.axioms[-1])
        return r

    # -- exploration ------------------------------------------------------------------------
    def _check(self, *assumptions):
        t0 = time.time()
        self.solver.push()
        for a in assumptions:
            self.solver.add(a)
        r = self.solver.check()
        m = None
        if r == z3.sat:
            m = self.solver.model()
        self.solver.pop()
        self.stats['solver_s'] += time.time() - t0
        return r, m

    def decide(self, sb):
        k = sb.k
        v = self.decided.get(k)
        if v is not None:
            return v[0]
        if not self.in_run:
            raise RuntimeError('symbolic decision outside Engine.explore')
        if self.pos < len(self.stack):
            d = self.stack[self.pos]
            assert d.kind == 'b', 'replay diverged (choice vs branch)'
            v = d.taken
            if d.remaining is not None:  # genuine fork: constraint must be re-asserted
                self._assert_path(sb.e if v else z3.Not(sb.e))
            self.pos += 1
            self.decided[k] = (v, sb.e)  # keeps the AST alive: z3 ids are reused after GC
            return v
        if len(self.stack) >= self.max_decisions:
            raise Inconclusive('decision bound %d exhausted on one path' % self.max_decisions)
        self.stats['branch_queries'] += 1
        r_not, _ = self._check(z3.Not(sb.e))
        if r_not == z3.unknown:
            raise Inconclusive('solver unknown on branch condition %s' % sb.e)
        if r_not == z3.unsat:
            v = True
            forced = True
        else:
            self.stats['branch_queries'] += 1
            r_pos, _ = self._check(sb.e)
            if r_pos == z3.unknown:
                raise Inconclusive('solver unknown on branch condition %s' % sb.e)
            if r_pos == z3.unsat:
                v = False
                forced = True
            else:
                v = True
                forced = False
        if forced:
            # not a fork: recorded so that replay stays aligned, no constraint needed
            self.stack.append(_Dec(v, None, 'b'))
        else:
            self.stats['forks'] += 1
            self.stack.append(_Dec(v, [False], 'b'))
            self._assert_path(sb.e)
        self.pos += 1
        self.decided[k] = (v, sb.e)
        return v

    def _assert_path(self, e):
        self.solver.add(e)
        self.path_cond.append(e)

    def choice(self, n, label=None):
        """Discrete nondeterminism: returns every value in range(n) on some path."""
        if n <= 0:
            raise PathAbort()
        k = len(self.choice_log)
        if k < len(self.choice_prefix):
            c = self.choice_prefix[k]
            if c >= n:
                raise PathAbort()
            self.choice_log.append(c)
            return c
        if n == 1:
            self.choice_log.append(0)
            return 0
        if self.pos < len(self.stack):
            d = self.stack[self.pos]
            assert d.kind == 'c', 'replay diverged (branch vs choice)'
            self.pos += 1
            self.choice_log.append(d.taken)
            return d.taken
        self.stack.append(_Dec(0, list(range(1, n)), 'c'))
        self.pos += 1
        self.choice_log.append(0)
        return 0

    def assume(self, cond, check=True):
        if isinstance(cond, SB):
            e = cond.e
        elif isinstance(cond, z3.BoolRef):
            e = cond
        else:
            if not cond:
                raise PathAbort()
            return
        self._assert_path(e)
        if not check:
            return  # the caller knows the assumption is satisfiable (saves a model search)
        r, _ = self._check()
        if r == z3.unknown:
            raise Inconclusive('solver unknown on assumption')
        if r == z3.unsat:
            raise PathAbort()

    def explore(self, fn, prefix=None):
        """Yields a PathResult per feasible path of fn().  `prefix`: fixed first choices (sharding)."""
        self.stack = []
        self.choice_prefix = list(prefix or [])
        n_paths = 0
        while True:
            self.pos = 0
            self.choice_log = []
            self.decided = {}
            self.path_cond = []
            self.solver.push()
            for ax in self.axioms:
                self.solver.add(ax)
            self.in_run = True
            status, value, exc, tb = 'ok', None, None, None
            try:
                value = fn()
            except PathAbort:
                status = 'pruned'
            except Inconclusive as e:
                self.in_run = False
                self.solver.pop()
                raise Inconclusive(str(e)) from None
            except Exception as e:  # noqa: an exception of the code under test on a feasible path
                tbs = traceback.extract_tb(e.__traceback__)
                if isinstance(e, AssertionError) and any(
                        any(f.filename.endswith(s) and f.lineno == ln for s, ln in self.hyp_sites)
                        for f in tbs[-1:]):
                    status = 'pruned'
                else:
                    status, exc, tb = 'exc', e, tbs
            self.in_run = False
            res = PathResult(status, value, [d.taken for d in self.stack[:self.pos]], exc, tb)
            res.choices = list(self.choice_log)
            if status == 'pruned':
                self.stats['pruned'] += 1
            else:
                self.stats['paths'] += 1
            # the path's solver state is still live while the consumer looks at the result
            self.in_run = True
            try:
                if status != 'pruned':  # abandoned paths (infeasible assumption / hypothesis site) are only counted
                    yield res
            finally:
                self.in_run = False
                self.solver.pop()
            n_paths += 1
            if n_paths >= self.max_paths:
                raise Inconclusive('path budget %d exhausted' % self.max_paths)
            # backtrack
            del self.stack[self.pos:]
            while self.stack and not self.stack[-1].remaining:
                self.stack.pop()
            if not self.stack:
                return
            d = self.stack[-1]
            d.taken = d.remaining.pop(0)

    # -- verdicts ---------------------------------------------------------------------------
    def prove_linear(self, claim, label=''):
        """Like prove, but under the *linear* conjuncts of the path condition only (a weaker hypothesis, so
        `unsat` is still sound); used where the claim is linear and the path condition carries polynomial
        constraints that would drag the query into QF_NRA.  A `sat` answer is re-checked with the full
        path condition."""
        e = z3bool(claim)
        if not z3.is_true(e):
            e = z3.simplify(e)
        if z3.is_true(e):
            self.stats['verdict_trivial'] = self.stats.get('verdict_trivial', 0) + 1
            return True, None
        s = z3.SolverFor('QF_LRA')
        s.set('timeout', self.timeout_ms)
        for c in self.path_cond:
            if _is_linear(c):
                s.add(c)
        s.add(z3.Not(e))
        t0 = time.time()
        r = s.check()
        self.stats['solver_s'] += time.time() - t0
        if r == z3.unsat:
            self.stats['verdict_queries'] += 1
            self.stats['verdict_unsat'] += 1
            return True, None
        return self.prove(claim, label)

    def prove_identity(self, lhs, rhs, label='', rtol=None):
        """lhs == rhs for two symbolic values, decided on the canonical linear form: the difference is normalised
        to sum_i c_i * m_i over distinct monomials m_i (products of atoms: variables, uninterpreted applications,
        reciprocals, roots).  An empty difference proves the identity outright.  Otherwise every non-linear
        monomial is abstracted by a fresh real and z3 decides the resulting QF_LRA disequality under the linear
        part of the path condition - posing the original non-linear formula with uninterpreted functions to z3
        does not terminate for `sat` instances (measured), and a `sat` here is only a candidate that the caller
        must confirm by concrete replay."""
        lhs, rhs = SR.lift(lhs), SR.lift(rhs)
        d = lhs - rhs
        if d.p and rtol is not None:
            # coefficients that agree to rtol (two spellings of one literal constant, e.g. x/(4*pi) against
            # x*(4*pi)**-1, differ in the 17th digit as exact rationals of doubles) count as equal
            rt = _frac(rtol)
            d = SR({m: c for m, c in d.p.items()
                    if abs(c) > rt * max(abs(lhs.p.get(m, 0)), abs(rhs.p.get(m, 0)))})
        if not d.p:
            self.stats['verdict_trivial'] = self.stats.get('verdict_trivial', 0) + 1
            return True, None
        self.stats['verdict_queries'] += 1
        s = z3.SolverFor('QF_LRA')
        s.set('timeout', self.timeout_ms)
        for c in self.path_cond:
            if _is_linear(c):
                s.add(c)
        terms = []
        for m, c in sorted(d.p.items()):
            lin = len(m) == 0 or (len(m) == 1 and m[0][1] == 1 and self.atom_key(m[0][0])[0] == 'var')
            if lin:
                terms.append(SR({m: c}).z3())
            else:
                # a non-linear monomial survives with a non-zero coefficient: its abstraction is an unconstrained
                # fresh real, so the abstracted disequality is satisfiable whatever the linear part is
                self.stats['verdict_sat'] += 1
                return False, None
        s.add(z3.Sum(terms) != 0 if len(terms) > 1 else terms[0] != 0)
        t0 = time.time()
        r = s.check()
        self.stats['solver_s'] += time.time() - t0
        if r == z3.unsat:
            self.stats['verdict_unsat'] += 1
            return True, None
        if r == z3.unknown:
            raise Inconclusive('solver unknown on identity %s' % label)
        self.stats['verdict_sat'] += 1
        return False, s.model()

    def prove(self, claim, label='', extra=()):
        """True iff `path condition => claim` (unsat of the negation).  Returns (ok, model)."""
        e = z3bool(claim)
        if not z3.is_true(e):
            e = z3.simplify(e)
        if z3.is_true(e):
            self.stats['verdict_trivial'] = self.stats.get('verdict_trivial', 0) + 1
            return True, None
        self.stats['verdict_queries'] += 1
        if self.smt2_log is not None:
            self._log_smt2(z3.Not(e), extra, label)
        r, m = self._check(z3.Not(e), *extra)
        if r == z3.unknown:
            raise Inconclusive('solver unknown on verdict %s' % label)
        if self.stats['cvc5_rechecked'] < self.second_limit:
            self._second_opinion(z3.Not(e), extra, r, label)
        if r == z3.unsat:
            self.stats['verdict_unsat'] += 1
            return True, None
        self.stats['verdict_sat'] += 1
        return False, m

    def _second_opinion(self, neg, extra, r, label):
        s = z3.Solver()
        for a in self.solver.assertions():
            s.add(a)
        s.add(neg)
        for x in extra:
            s.add(x)
        text = '(set-logic ALL)\n' + s.to_smt2()
        fd, path = tempfile.mkstemp(suffix='.smt2', prefix='vf_')
        try:
            with os.fdopen(fd, 'w') as f:
                f.write(text)
            try:
                out = subprocess.run(['cvc5', '--lang=smt2', '--tlimit=20000', path], capture_output=True, text=True,
                                     timeout=40).stdout
            except (subprocess.TimeoutExpired, OSError):
                out = 'unknown'
        finally:
            try:
                os.unlink(path)
            except OSError:
                pass
        self.stats['cvc5_rechecked'] += 1
        ans = [ln.strip() for ln in out.splitlines() if ln.strip() in ('sat', 'unsat', 'unknown')]
        if '(error' in out or not ans or ans[0] == 'unknown':
            self.stats['cvc5_unknown'] += 1
            return
        if (ans[0] == 'unsat') == (r == z3.unsat):
            self.stats['cvc5_agree'] += 1
        else:
            raise Inconclusive('z3 (%s) and cvc5 (%s) disagree on verdict %s' % (r, ans[0], label))

    def feasible(self, cond, extra=()):
        """sat? of path condition and cond (reachability witnesses, tight-boundary twins)."""
        self.stats['verdict_queries'] += 1
        r, m = self._check(z3bool(cond), *extra)
        if r == z3.unknown:
            raise Inconclusive('solver unknown on feasibility query')
        if r == z3.sat:
            self.stats['verdict_sat'] += 1
        else:
            self.stats['verdict_unsat'] += 1
        return r == z3.sat, m

    def _log_smt2(self, neg, extra, label):
        if len(self.smt2_log) >= 400:
            return
        s = z3.Solver()
        for a in self.solver.assertions():
            s.add(a)
        s.add(neg)
        for x in extra:
            s.add(x)
        self.smt2_log.append((label, s.to_smt2()))

    def model_inputs(self, m):
        """dict input name -> Fraction from a z3 model (None if not a rational / unassigned)."""
        out = {}
        for name, a in self.inputs:
            v = m.eval(self.atom_z3(a), model_completion=True)
            out[name] = _model_val(v)
        return out

    def diverse_models(self, extra_cond=True, n=4, bits=3):
        """Up to n different models of the path condition (each on a dyadic lattice if possible), each differing from
        the earlier ones in at least one input - used to pick a witness on which a candidate replays."""
        out, block = [], []
        for _ in range(n):
            cond = z3.And(z3bool(extra_cond), *block) if block else z3bool(extra_cond)
            m = self.dyadic_model(cond, bits=bits)
            if m is None:
                ok, m = self.feasible(cond)
                if not ok:
                    break
            out.append(m)
            diff = []
            for name, a in self.inputs:
                v = m.eval(self.atom_z3(a), model_completion=True)
                diff.append(self.atom_z3(a) != v)
            block.append(z3.Or(diff) if diff else z3.BoolVal(False))
            # push towards genuinely different shapes: at least two inputs must change next time
            if len(diff) >= 2:
                block.append(z3.Sum([z3.If(d, 1, 0) for d in diff]) >= 2)
        return out

    def dyadic_model(self, extra_cond, bits=12):
        """Try to find a model of path-cond and extra_cond with every input on the lattice k/2^bits."""
        cons = [z3bool(extra_cond)]
        for name, a in self.inputs:
            k = z3.Int('k!' + name)
            cons.append(self.atom_z3(a) * (2**bits) == z3.ToReal(k))
        r, m = self._check(*cons)
        if r == z3.sat:
            return m
        return None


_LIN_CACHE = {}


def _is_linear(e):
    """No product of two non-numeral terms, no division by a non-numeral, no power."""
    k = e.get_id()
    hit = _LIN_CACHE.get(k)
    if hit is not None and hit[1].eq(e):
        return hit[0]
    ok = True
    stack = [e]
    seen = set()
    while stack and ok:
        x = stack.pop()
        i = x.get_id()
        if i in seen:
            continue
        seen.add(i)
        if z3.is_app(x):
            kind = x.decl().kind()
            ch = x.children()
            if kind == z3.Z3_OP_MUL:
                if sum(0 if z3.is_rational_value(c) or z3.is_int_value(c) else 1 for c in ch) > 1:
                    ok = False
            elif kind == z3.Z3_OP_DIV:
                if not (z3.is_rational_value(ch[1]) or z3.is_int_value(ch[1])):
                    ok = False
            elif kind == z3.Z3_OP_POWER:
                ok = False
            stack.extend(ch)
    _LIN_CACHE[k] = (ok, e)
    return ok


def _model_val(v):
    try:
        if z3.is_rational_value(v):
            return Fraction(v.numerator_as_long(), v.denominator_as_long())
        if z3.is_algebraic_value(v):
            a = v.approx(30)
            return Fraction(a.numerator_as_long(), a.denominator_as_long())
    except Exception:
        pass
    return None


def _const_ratio(x, y):
    """Fraction c with x == c*y as polynomials, else None."""
    if len(x.p) != len(y.p) or not y.p:
        return None
    c = None
    for m, v in y.p.items():
        w = x.p.get(m)
        if w is None:
            return None
        r = w / v
        if c is None:
            c = r
        elif c != r:
            return None
    return c


# ----------------------------------------------------------------------------------------------
# helpers for harnesses
# ----------------------------------------------------------------------------------------------
def const(x):
    return SR.const(x)


def is_sym(x):
    return isinstance(x, (SR, SB))


def as_fraction(x):
    """Exact value of a concrete scalar (SR constant, Python number, numpy scalar)."""
    if isinstance(x, SR):
        if not x.is_const():
            raise ValueError('not a constant')
        return x.const_value()
    return _frac(x)


def to_float(x):
    if isinstance(x, SR):
        return float(x.const_value())
    return float(x)


def linear_form(x):
    """For reports: readable canonical form of a symbolic value."""
    return repr(SR.lift(x))
