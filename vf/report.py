"""Evidence files, replay files, known-findings matching, exit codes, parallel sharding."""
import json
import multiprocessing as mp
import os
import sys
import time
import traceback

ROOT = os.path.dirname(os.path.dirname(os.path.abspath(__file__)))
REPO = os.environ.get('STBEM_REPO', '/repo')
EXIT_OK, EXIT_VIOLATION, EXIT_INCONCLUSIVE = 0, 1, 3


def ncores():
    try:
        return max(1, min(16, len(os.sched_getaffinity(0))))
    except AttributeError:
        return max(1, min(16, os.cpu_count() or 1))


class Outcome:
    """What one check run found.  Filled by the check module, finalised by main."""
    def __init__(self, prop, tier, seed, level):
        self.prop, self.tier, self.seed, self.level = prop, tier, seed, level
        self.t0 = time.time()
        self.violations = []  # dict(signature=..., what=..., replay={...}, reproduced=bool)
        self.inconclusive = []  # strings
        self.coverage = dict(evaluations=0, distinct_nontrivial=0, rule='', samples=[])
        self.assumptions = []
        self.functions = set()
        self.bounds = {}
        self.outside = []
        self.stats = dict(paths=0, pruned=0, branch_queries=0, verdict_queries=0, solver_s=0.0, forks=0,
                          verdict_unsat=0, verdict_sat=0, verdict_trivial=0, cvc5_rechecked=0, cvc5_agree=0,
                          cvc5_unknown=0)
        self.notes = []
        self.parts = {}  # sub-claim -> dict(paths=, queries=, ...)

    def add_stats(self, st):
        for k, v in st.items():
            if k in self.stats:
                self.stats[k] += v

    def violation(self, signature, what, replay, reproduced=True):
        self.violations.append(dict(signature=signature, what=what, replay=replay, reproduced=reproduced))

    def sample(self, s, cap=12):
        if len(self.coverage['samples']) < cap:
            self.coverage['samples'].append(s)


def load_known():
    p = os.path.join(ROOT, 'known_findings.json')
    if not os.path.exists(p):
        return dict(findings=[], fixed=[])
    with open(p) as f:
        return json.load(f)


def finish(out):
    """Write evidence + replays, print VIOLATION / KNOWN-FINDING lines, return exit code."""
    known = load_known()
    known_sigs = {(k['property'], k['signature']): k for k in known.get('findings', [])}
    new, kn = [], []
    seen = set()
    for v in out.violations:
        key = (out.prop, v['signature'])
        if key in seen:
            continue
        seen.add(key)
        if key in known_sigs:
            kn.append(v)
        else:
            new.append(v)
    os.makedirs(os.path.join(ROOT, 'evidence'), exist_ok=True)
    os.makedirs(os.path.join(ROOT, 'replays'), exist_ok=True)
    not_reproduced = [v for v in new if not v.get('reproduced', True)]
    new = [v for v in new if v.get('reproduced', True)]
    for v in kn:
        print('KNOWN-FINDING: property=%s %s [%s]' % (out.prop, v['what'], v['signature']))
    lines = []
    for i, v in enumerate(new):
        path = os.path.join(ROOT, 'replays', '%s_%s_%d.json' % (out.prop, out.tier, i))
        with open(path, 'w') as f:
            json.dump(dict(property=out.prop, signature=v['signature'], what=v['what'], replay=v['replay'],
                           **({'via': v['via']} if v.get('via') else {})), f,
                      indent=1, default=str)
        lines.append('VIOLATION property=%s replay=%s' % (out.prop, path))
        print('  %s: %s' % (v['signature'], v['what']))
    for v in not_reproduced:
        out.inconclusive.append('solver counterexample did not reproduce on the real code: %s (%s)' %
                                (v['signature'], v['what']))
    cov = dict(out.coverage)
    st = out.stats
    cov.setdefault('explanation',
                   'bounded symbolic execution of the repository modules imported from %s (engine S: '
                   'operator overloading, z3 decides every branch feasibility and every postcondition); '
                   'see bounds / outside_the_claim' % REPO)
    cov['obligations'] = st['verdict_queries'] + st.get('verdict_trivial', 0)
    cov['discharged'] = st['verdict_unsat'] + st['verdict_sat'] + st.get('verdict_trivial', 0)
    cov['paths'] = st['paths']
    cov['paths_pruned_by_assumptions'] = st['pruned']
    cov['branch_feasibility_queries'] = st['branch_queries']
    cov['verdict_queries'] = st['verdict_queries']
    cov['verdict_unsat'] = st['verdict_unsat']
    cov['verdict_sat'] = st['verdict_sat']
    cov['verdicts_closed_by_normal_form'] = st.get('verdict_trivial', 0)
    cov['second_solver'] = dict(cvc5_rechecked=st.get('cvc5_rechecked', 0), agree=st.get('cvc5_agree', 0),
                                no_answer_within_20s=st.get('cvc5_unknown', 0),
                                note='thorough tier only: up to 12 verdict queries per engine re-discharged with the cvc5 binary')
    cov['solver_seconds'] = round(st['solver_s'], 3)
    cov['functions_encoded'] = sorted(out.functions)
    cov['functions_encoded_note'] = 'union of the functions named by the harness and the repository functions actually entered (sys.monitoring) in the worker processes'
    cov['bounds'] = out.bounds
    cov['outside_the_claim'] = out.outside
    cov['parts'] = out.parts
    cov['inconclusive'] = out.inconclusive
    cov['known_findings_reported'] = [v['signature'] for v in kn]
    cov['notes'] = out.notes
    cov['evaluations'] = max(1, int(cov.get('evaluations') or st['paths'] + st['verdict_queries']))
    cov['distinct_nontrivial'] = int(cov.get('distinct_nontrivial') or 0)
    if not cov.get('samples'):
        cov['samples'] = ['(no sample recorded)']
    ev = dict(property_id=out.prop, tier=out.tier, seed=out.seed, level=out.level, coverage=cov,
              assumptions=out.assumptions, wall_s=round(time.time() - out.t0, 2), violations=len(new))
    with open(os.path.join(ROOT, 'evidence', out.prop + '.json'), 'w') as f:
        json.dump(ev, f, indent=1, default=str)
    for ln in lines:
        print(ln)
    if new:
        return EXIT_VIOLATION
    if out.inconclusive:
        for s in out.inconclusive:
            print('INCONCLUSIVE property=%s %s' % (out.prop, s))
        return EXIT_INCONCLUSIVE
    print('OK property=%s tier=%s paths=%d solver-verdicts=%d (unsat %d) closed-by-normal-form=%d solver=%.1fs '
          'wall=%.1fs' % (out.prop, out.tier, st['paths'], st['verdict_queries'], st['verdict_unsat'],
                        st.get('verdict_trivial', 0), st['solver_s'], time.time() - out.t0))
    return EXIT_OK


# -- sharding ---------------------------------------------------------------------------------------
_ENTERED = set()


def _trace_repo_functions():
    """Records which functions of the repository are entered in this process (sys.monitoring, Python 3.12: every code
    location reports once and is then disabled, so the cost is negligible)."""
    mon = getattr(sys, 'monitoring', None)
    if mon is None or getattr(_trace_repo_functions, 'on', False):
        return
    try:
        mon.use_tool_id(3, 'vf-functions')
    except ValueError:
        return
    prefix = REPO.rstrip('/') + '/'

    def cb(code, offset):
        fn = code.co_filename
        if fn.startswith(prefix) and '_test' not in fn:
            _ENTERED.add('%s:%s' % (fn[len(prefix):], code.co_qualname))
        return mon.DISABLE
    mon.register_callback(3, mon.events.PY_START, cb)
    mon.set_events(3, mon.events.PY_START)
    _trace_repo_functions.on = True


def _worker(args):
    modname, fname, case = args
    try:
        import importlib
        _trace_repo_functions()
        mod = importlib.import_module(modname)
        r = getattr(mod, fname)(case)
        if isinstance(r, dict):
            r['functions'] = sorted(set(r.get('functions', [])) | {f for f in _ENTERED if '<' not in f.split(':')[1][:1]})
        return ('ok', r)
    except BaseException as e:  # noqa
        return ('err', '%s: %s\n%s' % (type(e).__name__, e, traceback.format_exc()))


def pmap(modname, fname, cases, procs=None):
    """Runs module.fname(case) for every case in worker processes (spawned, so each has its own z3).
    Returns list of results in order; a worker error becomes ('err', text)."""
    cases = list(cases)
    procs = procs or ncores()
    if len(cases) <= 1 or procs <= 1 or os.environ.get('VERIF_SERIAL'):
        return [_worker((modname, fname, c)) for c in cases]
    ctx = mp.get_context('spawn')
    with ctx.Pool(min(procs, len(cases))) as pool:
        return pool.map(_worker, [(modname, fname, c) for c in cases], chunksize=1)


def merge_worker(out, res, part=None):
    """Standard worker result: dict(stats=, violations=[...], inconclusive=[...], samples=[...],
    functions=[...], evaluations=, nontrivial=)."""
    status, r = res
    if status == 'err':
        out.inconclusive.append('worker failed: ' + r[-1500:])
        return
    out.add_stats(r.get('stats', {}))
    for v in r.get('violations', []):
        out.violations.append(v)
    out.inconclusive.extend(r.get('inconclusive', []))
    for s in r.get('samples', []):
        out.sample(s)
    out.functions.update(r.get('functions', []))
    out.coverage['evaluations'] += r.get('evaluations', 0)
    out.coverage['distinct_nontrivial'] += r.get('nontrivial', 0)
    if part:
        p = out.parts.setdefault(part, dict(cases=0, paths=0, verdict_queries=0, solver_s=0.0))
        p['cases'] += 1
        st = r.get('stats', {})
        p['paths'] += st.get('paths', 0)
        p['verdict_queries'] += st.get('verdict_queries', 0)
        p['solver_s'] = round(p['solver_s'] + st.get('solver_s', 0.0), 3)
        for k, v in r.get('part_extra', {}).items():
            p[k] = p.get(k, 0) + v
