"""Supporting deciders.  The statement of some properties rests on hypotheses that are exactly what another property's
check decides (e.g. C03, Galerkin orthogonality, presupposes that the matrix entries are the integrals of the operator
the residual evaluates: C01; and that the assembly paths deliver that matrix: C17).  Until round 5 such a hypothesis was
only *listed* as an assumption of the dependent check, so a change that breaks the property through its hypothesis was
reported by the other property's check only.  `run_supporting` discharges the hypothesis inside the dependent check by
running the other decider (always in the quick tier, own harness, same solver) and folding its outcome in:

 * a violation keeps its replay and is labelled `via-<ID>:<signature>`; `./check <prop> --replay f` dispatches to the
   module that produced it;
 * known findings of the supporting property are not repeated (they are reported under their own property);
 * stats, functions, parts (prefixed `support <ID>:`), bounds, assumptions and exclusions are merged into the evidence.

An edge X <- Y is listed only where "Y's decidable claim fails" implies "X's statement fails" for the code at hand
(DESIGN 2.8 gives the argument per edge).  Supporting runs never recurse."""
import importlib
import time

from . import report

# dependent property -> [(supporting property, keyword arguments of its run(), why)]
SUPPORT = {
    'C01': [('C04', {}, 'an entry of an acausal pair is the integral 0; the matrix entry is the pair\'s bilform'),
            ('C11', {}, 'the exact integral is additive under time splits (and space splits on the closed-form path)'),
            ('C12', {}, 'the exact integral has the symmetries of kernel and curve'),
            ('C18', {}, 'ds = dx_hat only for arc-length curves; bilform evaluates the piece its element sits on')],
    'C02': [('C06', {}, 'marking-driven refinement is one of C02\'s operations: the result must be the least '
                        '1-irregular refinement containing the marked bisections')],
    'C03': [('C01', {}, 'the Galerkin matrix entries are the integrals of the operator the residual evaluates'),
            ('C17', {}, 'the matrix / load vector the solve uses are the single-pair evaluations on every path')],
    'C04': [('C17', {}, 'the Volterra structure of the assembled matrix presupposes transparent assembly')],
    'C08': [('C16', {}, 'the load integral runs over the quadtree cells found by boundary targeting'),
            ('C17', {}, 'the load vector is assembled by linform_vector on the same paths')],
    'C09': [('C14', {}, 'the indicator is the Slobodeckij seminorm routine applied to the residual on the patch')],
    'C11': [('C01', dict(only=('P1', 'P6')),
             'on the quadrature path parent and children use different panels: additivity to 1e-7 holds only if the '
             'panels of every pair tile its rectangle with the graded rule and the held rules integrate')],
}


def run_supporting(out):
    known = report.load_known()
    known_sigs = {(k['property'], k['signature']) for k in known.get('findings', [])}
    for rel, kwargs, why in SUPPORT.get(out.prop, []):
        t0 = time.time()
        mod = importlib.import_module('checks.' + rel.lower())
        sub = report.Outcome(rel, 'quick', out.seed, getattr(mod, 'LEVEL', 'other'))
        try:
            mod.run(sub, **kwargs)
        except Exception as e:  # harness error of the supporting run: never a verdict
            out.inconclusive.append('supporting decider %s failed: %s: %s' % (rel, type(e).__name__, e))
            continue
        for v in sub.violations:
            if (rel, v['signature']) in known_sigs:
                continue
            v = dict(v)
            v['via'] = rel
            v['what'] = '[hypothesis of %s (%s), decided by the %s decider] %s' % (out.prop, why, rel, v['what'])
            v['signature'] = 'via-%s:%s' % (rel, v['signature'])
            out.violations.append(v)
        out.inconclusive.extend('supporting decider %s: %s' % (rel, s) for s in sub.inconclusive)
        out.add_stats(sub.stats)
        out.functions.update(sub.functions)
        out.coverage['evaluations'] += sub.coverage.get('evaluations', 0) or 0
        out.coverage['distinct_nontrivial'] += sub.coverage.get('distinct_nontrivial', 0) or 0
        for name, p in sub.parts.items():
            out.parts['support %s: %s' % (rel, name)] = p
        sup = out.bounds.setdefault('supporting_deciders', {})
        sup[rel] = dict(why=why, tier='quick', restricted_to=list(kwargs.get('only', [])) or 'all parts',
                        bounds=sub.bounds, wall_s=round(time.time() - t0, 1))
        out.assumptions.extend('[%s] %s' % (rel, a) for a in sub.assumptions if '[%s] %s' % (rel, a) not in out.assumptions)
        out.outside.extend('[%s] %s' % (rel, a) for a in sub.outside)
