"""Shared machinery for the mesh properties (C02, C10, C06, C19, C18, C20): symbolic grids,
translation of the code's leaves to Ref rectangles through the parent chain, and the per-state
solver verdicts (tiling, ancestry, vertex uniqueness, neighbours)."""
import sys

import z3

from .meshref import Rect, RefMesh
from .sym import SR, SB, Inconclusive, z3bool, z3real

GRIDS = {
    # name: (n_t, n_x, glued)
    '1x1o': (1, 1, False),
    '1x1g': (1, 1, True),
    '2x1g': (1, 2, True),   # two space cells, one slab
    '3x1g': (1, 3, True),
    '3x1o': (1, 3, False),
    '1x2g': (2, 1, True),   # one space cell, two slabs
    '2x2o': (2, 2, False),
    '2x2g': (2, 2, True),
    '4x1g': (1, 4, True),
    '3x2g': (2, 3, True),
}


def symbolic_grid(eng, n_t, n_x):
    """Strictly increasing symbolic grids 0 = x0 < x1 < ... < xN, 0 = t0 < ... < tM (all reals)."""
    xs = [SR.const(0)] + [eng.real('x%d' % k) for k in range(1, n_x + 1)]
    ts = [SR.const(0)] + [eng.real('t%d' % k) for k in range(1, n_t + 1)]
    for a, b in zip(xs, xs[1:]):
        eng.assume(a < b)
    for a, b in zip(ts, ts[1:]):
        eng.assume(a < b)
    return ts, xs


def build_mesh(M, eng, gridname):
    n_t, n_x, glued = GRIDS[gridname]
    ts, xs = symbolic_grid(eng, n_t, n_x)
    mesh = M.Mesh(glue_space=glued, initial_space_mesh=xs, initial_time_mesh=ts)
    mesh._vf = dict(ts=ts, xs=xs, n_t=n_t, n_x=n_x, glued=glued)
    return mesh


def rect_of(mesh, elem):
    """Ref rectangle of an element, read off the parent chain (which child of which bisection)."""
    chain = []
    e = elem
    while e.parent is not None:
        p = e.parent
        which = 0 if p.children[0] is e else 1
        assert p.children[which] is e
        dt = e.levels[0] - p.levels[0]
        dx = e.levels[1] - p.levels[1]
        if (dt, dx) == (1, 0):
            ax = 0
        elif (dt, dx) == (0, 1):
            ax = 1
        else:
            raise AssertionError('levels of child %r are not parent levels plus one in one axis' % (elem, ))
        chain.append((ax, which))
        e = p
    root = e
    ridx = mesh.roots.index(root)
    n_x = mesh._vf['n_x']
    j, i = divmod(ridx, n_x)
    r = Rect(j, i, 0, 0, 0, 0)
    for ax, which in reversed(chain):
        r = r.bisect(ax)[which]
    if (r.lt, r.lx) != tuple(elem.levels):
        raise AssertionError('levels %r disagree with the parent chain of %r' % (elem.levels, elem))
    return r


def ref_of(mesh):
    vf = mesh._vf
    leaves = {}
    for e in mesh.leaf_elements:
        leaves[e] = rect_of(mesh, e)
    ref = RefMesh(vf['n_t'], vf['n_x'], vf['glued'], set(leaves.values()))
    return ref, leaves


def expected_coords(mesh, r):
    """Physical coordinates the Ref rectangle must have on the symbolic grid."""
    ts, xs = mesh._vf['ts'], mesh._vf['xs']
    ta, tb = ts[r.j], ts[r.j + 1]
    xa, xb = xs[r.i], xs[r.i + 1]
    from fractions import Fraction as F
    t0 = ta + (tb - ta) * F(r.kt, 2**r.lt)
    t1 = ta + (tb - ta) * F(r.kt + 1, 2**r.lt)
    x0 = xa + (xb - xa) * F(r.kx, 2**r.lx)
    x1 = xa + (xb - xa) * F(r.kx + 1, 2**r.lx)
    return t0, t1, x0, x1


def all_elements(mesh):
    out = []
    stack = list(reversed(mesh.roots))
    while stack:
        e = stack.pop()
        out.append(e)
        stack.extend(reversed(list(e.children)))
    return out


def check_state(eng, mesh, fail, want_tiling=True, want_vertices=True, linear=False):
    """C02 invariants of one reachable state.  `fail(sig, what, model)` records a candidate."""
    vf = mesh._vf
    T, L = vf['ts'][-1], vf['xs'][-1]
    ref, leaves = ref_of(mesh)
    prove = eng.prove_linear if linear else eng.prove
    # bookkeeping: leaf collection == childless elements reachable from the roots
    elems = all_elements(mesh)
    childless = [e for e in elems if not e.children]
    if set(childless) != set(mesh.leaf_elements) or len(childless) != len(mesh.leaf_elements):
        fail('bookkeeping:leaf_elements', 'leaf_elements differs from the set of childless elements', None)
    idxs = [e.glob_idx for e in elems]
    if len(set(idxs)) != len(idxs):
        fail('bookkeeping:glob_idx', 'element indices are not unique', None)
    if mesh.N_elements != len(elems):
        fail('bookkeeping:N_elements', 'N_elements %d != %d elements' % (mesh.N_elements, len(elems)), None)
    vidx = [v.idx for v in mesh.vertices]
    if vidx != list(range(len(vidx))):
        fail('bookkeeping:vertex_idx', 'vertex indices are not 0..n-1 in list order', None)
    # ancestry: coordinates are the dyadic descendants the parent chain says
    for e, r in leaves.items():
        t0, t1, x0, x1 = expected_coords(mesh, r)
        cs = [e.time_interval[0] == t0, e.time_interval[1] == t1, e.space_interval[0] == x0,
              e.space_interval[1] == x1, e.vertices[0].t == t0, e.vertices[0].x == x0, e.vertices[1].t == t0,
              e.vertices[1].x == x1, e.vertices[2].t == t1, e.vertices[2].x == x1, e.vertices[3].t == t1,
              e.vertices[3].x == x0, e.h_t == t1 - t0, e.h_x == x1 - x0]
        if all(c is True for c in cs):
            eng.stats['verdict_trivial'] = eng.stats.get('verdict_trivial', 0) + 1
            continue
        ok, m = prove(z3.And([z3bool(c) for c in cs]), 'ancestry')
        if not ok:
            fail('ancestry', 'leaf %r is not the dyadic descendant %r of its root' % (e, r), m)
    # tiling in physical coordinates: a fresh point lies in exactly one half-open leaf box
    if want_tiling:
        pt, px = eng.real('pt!'), eng.real('px!')
        inside = []
        for e in mesh.leaf_elements:
            (a, b), (c, d) = e.time_interval, e.space_interval
            inside.append(z3.If(z3.And(z3bool(a <= pt), z3bool(pt < b), z3bool(c <= px), z3bool(px < d)), 1, 0))
        dom = z3.And(z3bool(pt >= 0), z3bool(pt < T), z3bool(px >= 0), z3bool(px < L))
        ok, m = prove(z3.Implies(dom, z3.Sum(inside) == 1), 'tiling')
        if not ok:
            fail('tiling', 'a point of the cylinder lies in %s leaves' % m.eval(z3.Sum(inside)), m)
        if not ref.is_tiling():
            fail('tiling:ref', 'Ref rectangles of the leaves do not tile the index cylinder', None)
    # vertices pairwise distinct for every grid: distinct coordinate polynomials never take the same
    # value on a valid grid (solver), and no two vertices carry the same pair of polynomials
    if want_vertices:
        vs = mesh.vertices
        seen = {}
        tpol, xpol = {}, {}
        for v in vs:
            t, x = SR.lift(v.t), SR.lift(v.x)
            k = (t.key(), x.key())
            if k in seen:
                fail('vertices:duplicate', 'two vertices have identical coordinates %r' % (v, ), None)
            seen[k] = v
            tpol.setdefault(t.key(), t)
            xpol.setdefault(x.key(), x)
        same = []
        for pol in (list(tpol.values()), list(xpol.values())):
            for p in range(len(pol)):
                for q in range(p + 1, len(pol)):
                    c = pol[p] == pol[q]
                    if c is False:
                        continue
                    same.append(z3bool(c))
        if same:
            ok, m = prove(z3.Not(z3.Or(same)), 'vertices')
            if not ok:
                fail('vertices:coincide', 'two distinct dyadic coordinates coincide for some grid', m)
        # every leaf corner is a registered vertex object
        vset = set(map(id, vs))
        for e in mesh.leaf_elements:
            for v in e.vertices:
                if id(v) not in vset:
                    fail('vertices:unregistered', 'leaf %r uses a vertex missing from mesh.vertices' % (e, ), None)
    # 1-irregularity
    bad = ref.irregular_pairs()
    if bad:
        fail('irregular', 'edge-neighbours differ by two levels: %r' % (bad[0], ), None)
    return ref, leaves


SIDE_NAMES = ['bottom(t=t0)', 'right(x=x1)', 'top(t=t1)', 'left(x=x0)']


def check_neighbours(eng, mesh, ref, leaves, fail):
    """C10: reported neighbours == geometric neighbours, decided (a) in Ref index space and (b) by
    the solver on the symbolic physical coordinates."""
    vf = mesh._vf
    T, L = vf['ts'][-1], vf['xs'][-1]
    glued = vf['glued']
    inv = {r: e for e, r in leaves.items()}
    lst = list(mesh.leaf_elements)
    n_queries = 0
    claims = []
    for e in lst:
        r = leaves[e]
        (a, b), (c, d) = e.time_interval, e.space_interval
        for side, edge in enumerate(e.edges):
            try:
                rep = edge.neighbour_elements()
            except AssertionError as ex:
                fail('neighbours:assert', 'neighbour_elements() asserted on %s of %r' % (SIDE_NAMES[side], e), None)
                continue
            if any(x is None or x.children for x in rep):
                fail('neighbours:stale', 'non-leaf / missing neighbour reported across %s of %r: %r' %
                     (SIDE_NAMES[side], e, rep), None)
                continue
            if len(rep) > 2:
                fail('neighbours:count', 'more than two neighbours across %s of %r' % (SIDE_NAMES[side], e), None)
            if len(set(map(id, rep))) != len(rep):
                fail('neighbours:dup', 'duplicate neighbour across %s of %r' % (SIDE_NAMES[side], e), None)
            want = ref.side_neighbours(r, side)
            got = [leaves.get(x) for x in rep]
            if set(got) != set(want):
                fail('neighbours:set', 'across %s of %r reported %r, geometric %r' %
                     (SIDE_NAMES[side], r, got, want), None)
            # flags (convention of src/mesh.py, asserted by its own tests): on_boundary marks every edge on
            # the border of the parameter rectangle, glued additionally marks the two seam lines
            pb, seam, bnd = ref.on_param_boundary(r, side), ref.on_seam(r, side), ref.on_boundary(r, side)
            if bool(edge.on_boundary) != pb or bool(edge.glued) != seam:
                fail('neighbours:flag', 'on_boundary=%r glued=%r on %s of %r, expected %r/%r' %
                     (edge.on_boundary, edge.glued, SIDE_NAMES[side], r, pb, seam), None)
            if bnd and rep:
                fail('neighbours:bdr', 'boundary edge %s of %r has neighbours' % (SIDE_NAMES[side], r), None)
            if not bnd and not rep:
                fail('neighbours:none', 'interior/seam edge %s of %r has no neighbour' % (SIDE_NAMES[side], r), None)
            # symmetry
            for x in rep:
                back = []
                for ed in x.edges:
                    try:
                        back.extend(ed.neighbour_elements())
                    except AssertionError:
                        pass
                if not any(y is e for y in back):
                    fail('neighbours:symmetry', '%r reports %r but not conversely' % (r, leaves.get(x)), None)
            # solver side, on the symbolic physical coordinates: every reported neighbour lies on the other
            # side of this edge's line (seam identified) with an overlap of positive length, and the
            # overlaps add up to the whole edge - so, the leaves being a tiling (decided separately),
            # no other leaf can share a piece of the edge.
            total = None
            for f in rep:
                (a2, b2), (c2, d2) = f.time_interval, f.space_interval
                if side in (0, 2):
                    line = z3bool((a == b2) if side == 0 else (b == a2))
                    lo = z3.If(z3bool(c >= c2), z3real(c), z3real(c2))
                    hi = z3.If(z3bool(d <= d2), z3real(d), z3real(d2))
                else:
                    if side == 1:
                        line = z3bool(d == c2) if f is not e else z3.BoolVal(False)
                        if glued:
                            line = z3.Or(line, z3.And(z3bool(d == L), z3bool(c2 == 0)))
                    else:
                        line = z3bool(c == d2) if f is not e else z3.BoolVal(False)
                        if glued:
                            line = z3.Or(line, z3.And(z3bool(c == 0), z3bool(d2 == L)))
                    lo = z3.If(z3bool(a >= a2), z3real(a), z3real(a2))
                    hi = z3.If(z3bool(b <= b2), z3real(b), z3real(b2))
                claims.append(z3.And(line, lo < hi))
                total = (hi - lo) if total is None else total + (hi - lo)
            if rep:
                length = z3real(d - c) if side in (0, 2) else z3real(b - a)
                claims.append(total == length)
    if claims:
        ok, m = eng.prove(z3.And(claims), 'neighbours-geometric')
        if not ok:
            fail('neighbours:geometric', 'reported neighbour relation differs from the geometric one for some grid', m)


def functions_entered(fn, repo):
    """Runs fn() once under a profiler and returns the repo functions it entered."""
    seen = set()

    def prof(frame, event, arg):
        if event == 'call':
            co = frame.f_code
            if co.co_filename.startswith(repo):
                seen.add('%s:%s' % (co.co_filename[len(repo):].lstrip('/'), co.co_qualname
                                    if hasattr(co, 'co_qualname') else co.co_name))

    sys.setprofile(prof)
    try:
        return fn(), seen
    finally:
        sys.setprofile(None)
