"""Engine T: the literal tables of src/quadrature_rules.py as exact rationals.

The module is parsed with `ast` from /repo's current working tree; for every `if/elif` arm of every
rule function the key, the kind of statement in the body (`Return` or a bare expression - the
missing-return defect is visible here) and the *source text* of every numeric literal are
extracted, so a 41-digit literal is a Fraction with all 41 digits ("as written") and, separately,
Fraction(float(text)) - the double the interpreter actually uses.

Rational enclosures of log x, log(1-x), sqrt x used by the moment queries live here too.
"""
import ast
import math
import os
from fractions import Fraction as F

FAMILIES = ['log_quadrature_rule', 'log_log_quadrature_rule', 'sqrt_quadrature_rule', 'sqrtinv_quadrature_rule',
            'gauss_sqrtinv_quadrature_rule', 'gauss_x_quadrature_rule', 'gauss_log_quadrature_rule']
KEY_LISTS = {'LOG_QUAD_RULES': 'log_quadrature_rule', 'LOG_LOG_QUAD_RULES': 'log_log_quadrature_rule',
             'SQRT_QUAD_RULES': 'sqrt_quadrature_rule', 'SQRTINV_QUAD_RULES': 'sqrtinv_quadrature_rule'}


class Arm:
    def __init__(self, family, key, lineno, kind, nodes_txt, weights_txt, problem=None):
        self.family, self.key, self.lineno, self.kind = family, key, lineno, kind
        self.nodes_txt, self.weights_txt, self.problem = nodes_txt, weights_txt, problem

    def written(self):
        return [dec(t) for t in self.nodes_txt], [dec(t) for t in self.weights_txt]

    def doubles(self):
        return [F(as_double(t)) for t in self.nodes_txt], [F(as_double(t)) for t in self.weights_txt]

    def floats(self):
        return [as_double(t) for t in self.nodes_txt], [as_double(t) for t in self.weights_txt]

    def __repr__(self):
        return '%s%r@%d' % (self.family, self.key, self.lineno)


def _is_literal_arith(node):
    """numeric constants combined with + - * / and unary signs only"""
    if isinstance(node, ast.Expression):
        return _is_literal_arith(node.body)
    if isinstance(node, ast.Constant):
        return isinstance(node.value, (int, float)) and not isinstance(node.value, bool)
    if isinstance(node, ast.UnaryOp) and isinstance(node.op, (ast.USub, ast.UAdd)):
        return _is_literal_arith(node.operand)
    if isinstance(node, ast.BinOp) and isinstance(node.op, (ast.Add, ast.Sub, ast.Mult, ast.Div)):
        return _is_literal_arith(node.left) and _is_literal_arith(node.right)
    return False


def _exact(node, txt):
    if isinstance(node, ast.Expression):
        return _exact(node.body, txt)
    if isinstance(node, ast.Constant):
        return F(ast.get_source_segment(txt, node).replace('_', ''))  # all digits of the literal as written
    if isinstance(node, ast.UnaryOp):
        v = _exact(node.operand, txt)
        return -v if isinstance(node.op, ast.USub) else v
    a, b = _exact(node.left, txt), _exact(node.right, txt)
    if isinstance(node.op, ast.Add):
        return a + b
    if isinstance(node.op, ast.Sub):
        return a - b
    if isinstance(node.op, ast.Mult):
        return a * b
    return a / b


def dec(txt):
    """Exact rational value of a table element as written: a numeric literal (all its digits) or an arithmetic
    expression of literals (e.g. two lines joined by a missing comma: `-0.03... \n -0.005...` is ONE element)."""
    t = txt.strip()
    tree = ast.parse('(' + t + ')', mode='eval')
    if not _is_literal_arith(tree):
        raise ValueError('not literal arithmetic: %r' % txt)
    return _exact(tree, '(' + t + ')')


def as_double(txt):
    """The double the interpreter computes for the element (expressions evaluated in double arithmetic)."""
    t = txt.strip()
    tree = ast.parse('(' + t + ')', mode='eval')
    if not _is_literal_arith(tree):
        raise ValueError('not literal arithmetic: %r' % txt)
    return float(eval(compile(tree, '<table element>', 'eval'), {'__builtins__': {}}))


def _key_of(test):
    """`lvls == (a, b)` or `N == k` -> key"""
    if not (isinstance(test, ast.Compare) and len(test.ops) == 1 and isinstance(test.ops[0], ast.Eq)):
        return None
    try:
        return ast.literal_eval(test.comparators[0])
    except Exception:
        return None


def _literal_texts(src, node):
    """Source texts of the elements of a tuple of numeric literals (or arithmetic expressions of literals)."""
    if not isinstance(node, ast.Tuple):
        return None
    out = []
    for el in node.elts:
        if not _is_literal_arith(el):
            return None
        out.append(ast.get_source_segment(src, el))
    return out


def _single_chain(fn):
    chain = [s for s in fn.body if isinstance(s, ast.If)]
    return chain[0] if len(chain) == 1 else None


def parse_rules(repo):
    path = os.path.join(repo, 'src', 'quadrature_rules.py')
    with open(path) as f:
        src = f.read()
    tree = ast.parse(src)
    arms, key_lists, problems, notes = [], {}, [], []
    for node in tree.body:
        if isinstance(node, ast.Assign) and len(node.targets) == 1 and isinstance(node.targets[0], ast.Name):
            nm = node.targets[0].id
            if nm in KEY_LISTS:
                try:
                    key_lists[nm] = [tuple(k) for k in ast.literal_eval(node.value)]
                except Exception as e:
                    problems.append('key list %s is not a literal: %s' % (nm, e))
        if isinstance(node, ast.FunctionDef) and node.name in FAMILIES:
            fam = node.name
            # find the if/elif chain: in the function itself, or in a module-level helper it calls (a wrapper
            # around the table must not blind the front end; what the wrapper returns is checked on the values)
            cur = _single_chain(node)
            if cur is None:
                funcs = {f.name: f for f in tree.body if isinstance(f, ast.FunctionDef)}
                called = [c.func.id for c in ast.walk(node) if isinstance(c, ast.Call) and isinstance(c.func, ast.Name)
                          and c.func.id in funcs and c.func.id != fam]
                cands = [funcs[n] for n in dict.fromkeys(called) if _single_chain(funcs[n]) is not None]
                if len(cands) == 1:
                    cur = _single_chain(cands[0])
                    notes.append('%s: table found in helper %s' % (fam, cands[0].name))
            if cur is None:
                problems.append('%s: expected exactly one if/elif chain' % fam)
                continue
            while True:
                key = _key_of(cur.test)
                kind, nodes_txt, weights_txt, problem = None, None, None, None
                body = [s for s in cur.body if not (isinstance(s, ast.Expr) and isinstance(s.value, ast.Constant)
                                                    and isinstance(s.value.value, str))]
                if len(body) != 1:
                    problem = 'arm body has %d statements' % len(body)
                    st = body[0] if body else None
                else:
                    st = body[0]
                if isinstance(st, ast.Return):
                    kind, val = 'return', st.value
                elif isinstance(st, ast.Expr):
                    kind, val = 'expr', st.value
                else:
                    kind, val = type(st).__name__, None
                if isinstance(val, ast.Tuple) and len(val.elts) == 2:
                    nodes_txt = _literal_texts(src, val.elts[0])
                    weights_txt = _literal_texts(src, val.elts[1])
                    if nodes_txt is None or weights_txt is None:
                        problem = 'arm does not hold two tuples of numeric literals'
                else:
                    problem = problem or 'arm value is not a pair'
                arms.append(Arm(fam, key, cur.lineno, kind, nodes_txt, weights_txt, problem))
                if len(cur.orelse) == 1 and isinstance(cur.orelse[0], ast.If):
                    cur = cur.orelse[0]
                else:
                    break
    return arms, key_lists, problems


# ----------------------------------------------------------------------------------------------
# rational enclosures
# ----------------------------------------------------------------------------------------------
PREC = 10**75


def _round(x, up):
    """Outward rounding of a Fraction to denominator PREC."""
    n = x.numerator * PREC
    q, r = divmod(n, x.denominator)
    if up and r:
        q += 1
    return F(q, PREC)


def _atanh_enclosure(z, terms=60):
    """[lo, hi] containing atanh(z) for rational |z| <= 1/4: odd series + geometric tail bound."""
    assert abs(z) <= F(1, 4)
    neg = z < 0
    z = abs(z)
    s = F(0)
    z2 = z * z
    p = z
    for n in range(terms):
        s += p / (2 * n + 1)
        p = p * z2
    # tail: sum_{n>=terms} z^(2n+1)/(2n+1) <= z^(2*terms+1) / ((2*terms+1)(1-z^2))
    tail = p / ((2 * terms + 1) * (1 - z2))
    lo, hi = s, s + tail
    if neg:
        lo, hi = -hi, -lo
    return lo, hi


_LOG2 = None


def log2_enclosure():
    global _LOG2
    if _LOG2 is None:
        lo, hi = _atanh_series_exact(F(1, 3), 90)
        _LOG2 = (2 * lo, 2 * hi)
    return _LOG2


def _atanh_series_exact(z, terms):
    """atanh for rational 0 < z <= 1/3 with exact partial sums (small numerator/denominator)."""
    s, p, z2 = F(0), z, z * z
    for n in range(terms):
        s += p / (2 * n + 1)
        p *= z2
    tail = p / ((2 * terms + 1) * (1 - z2))
    return s, s + tail


def _trunc(x, up=False):
    return _round(x, up)


def log_enclosure(x):
    """[lo, hi] with lo <= log(x) <= hi, width < 1e-60, for a positive rational x."""
    assert x > 0
    # argument reduction x = y * 2^e with y in [2/3, 4/3)
    e = 0
    y = x
    while y >= F(4, 3):
        y /= 2
        e += 1
    while y < F(2, 3):
        y *= 2
        e -= 1
    z = (y - 1) / (y + 1)  # |z| <= 1/5
    # enclose z by 75-digit rationals, atanh is increasing
    zlo, zhi = _round(z, False), _round(z, True)
    lo = _atanh_enclosure(zlo)[0]
    hi = _atanh_enclosure(zhi)[1]
    l2lo, l2hi = log2_enclosure()
    a = 2 * lo + (e * l2lo if e >= 0 else e * l2hi)
    b = 2 * hi + (e * l2hi if e >= 0 else e * l2lo)
    return _round(a, False), _round(b, True)


def sqrt_enclosure(x):
    """[lo, hi] containing sqrt(x) for a non-negative rational x, width <= 1e-75 * ..."""
    assert x >= 0
    n, d = x.numerator, x.denominator
    # sqrt(n/d) = sqrt(n*d)/d
    m = n * d * PREC * PREC
    r = math.isqrt(m)
    lo = F(r, d * PREC)
    hi = lo if r * r == m else F(r + 1, d * PREC)
    return lo, hi
