"""IEEE binary64 symbolic scalars (z3 QF_FP) for small arithmetic kernels where the *rounding* is the subject
(engine S models coordinates as reals and cannot see it).  Comparisons give the engine's symbolic booleans."""
import z3

from .sym import SB

F64 = z3.Float64()
RM = z3.RNE()


class FPV:
    __slots__ = ('e', )

    def __init__(self, e):
        self.e = e

    @staticmethod
    def var(name):
        return FPV(z3.FP(name, F64))

    @staticmethod
    def lift(x):
        if isinstance(x, FPV):
            return x
        if isinstance(x, (int, float)) and not isinstance(x, bool):
            return FPV(z3.FPVal(float(x), F64))
        return None

    def _bin(self, o, f, swap=False):
        o = FPV.lift(o)
        if o is None:
            return NotImplemented
        return FPV(f(RM, o.e, self.e) if swap else f(RM, self.e, o.e))

    def __add__(self, o):
        return self._bin(o, z3.fpAdd)

    def __radd__(self, o):
        return self._bin(o, z3.fpAdd, True)

    def __sub__(self, o):
        return self._bin(o, z3.fpSub)

    def __rsub__(self, o):
        return self._bin(o, z3.fpSub, True)

    def __mul__(self, o):
        return self._bin(o, z3.fpMul)

    def __rmul__(self, o):
        return self._bin(o, z3.fpMul, True)

    def __truediv__(self, o):
        return self._bin(o, z3.fpDiv)

    def __rtruediv__(self, o):
        return self._bin(o, z3.fpDiv, True)

    def __neg__(self):
        return FPV(z3.fpNeg(self.e))

    def __abs__(self):
        return FPV(z3.fpAbs(self.e))

    def _cmp(self, o, f):
        o = FPV.lift(o)
        if o is None:
            return NotImplemented
        return SB(f(self.e, o.e))

    def __lt__(self, o):
        return self._cmp(o, z3.fpLT)

    def __le__(self, o):
        return self._cmp(o, z3.fpLEQ)

    def __gt__(self, o):
        return self._cmp(o, z3.fpGT)

    def __ge__(self, o):
        return self._cmp(o, z3.fpGEQ)

    def __eq__(self, o):
        if o is self:
            return True
        r = self._cmp(o, z3.fpEQ)
        return False if r is NotImplemented else r

    def __ne__(self, o):
        if o is self:
            return False
        r = self._cmp(o, z3.fpEQ)
        return True if r is NotImplemented else ~r

    def __hash__(self):
        return hash(self.e.get_id())

    def __repr__(self):
        return 'FPV(%s)' % self.e

    def __format__(self, spec):
        return repr(self)


def finite_bounded(v, bound):
    return z3.And(z3.Not(z3.fpIsNaN(v.e)), z3.Not(z3.fpIsInf(v.e)), z3.fpLEQ(z3.fpAbs(v.e), z3.FPVal(float(bound), F64)))


def model_float(m, v):
    val = m.eval(v.e, model_completion=True)
    try:
        return float(val.as_string()) if hasattr(val, 'as_string') else float(str(val))
    except Exception:
        import re
        s = str(val)
        mm = re.match(r'(-?[0-9.]+)\*\(2\*\*(-?\d+)\)', s)
        if mm:
            return float(mm.group(1)) * 2.0**int(mm.group(2))
        return float(eval(s.replace('**', '**')))
