"""Ref: an independent reference model of the space-time mesh.

A mesh is a set of dyadic index rectangles (j, i, lt, kt, lx, kx): root cell (time row j, space
column i), time level/index and space level/index inside the root.  Geometry lives in *index space*
(root cell (j, i) occupies [j, j+1] x [i, i+1]); because the real grids are strictly increasing
this is an order isomorphism per axis, so adjacency, overlap and tiling are exactly the same
statements as in physical coordinates, and they are computed here in exact integer/Fraction
arithmetic.  Nothing in here looks at the half-edge structure, the recursion order of the closure
or any other implementation detail of src/mesh.py.
"""
from fractions import Fraction as F

SCALE = 2**40


class Rect:
    __slots__ = ('j', 'i', 'lt', 'kt', 'lx', 'kx', 't0', 't1', 'x0', 'x1', '_k')

    def __init__(self, j, i, lt, kt, lx, kx):
        self.j, self.i, self.lt, self.kt, self.lx, self.kx = j, i, lt, kt, lx, kx
        # index-space coordinates scaled by 2^40 (exact integers; levels stay far below 40)
        assert lt < 40 and lx < 40
        self.t0 = j * SCALE + kt * (SCALE >> lt)
        self.t1 = j * SCALE + (kt + 1) * (SCALE >> lt)
        self.x0 = i * SCALE + kx * (SCALE >> lx)
        self.x1 = i * SCALE + (kx + 1) * (SCALE >> lx)
        self._k = (j, i, lt, kt, lx, kx)

    def key(self):
        return self._k

    def __hash__(self):
        return hash(self._k)

    def __eq__(self, o):
        return self._k == o._k

    def __repr__(self):
        return 'R%s' % (self._k, )

    def level(self, ax):
        return self.lt if ax == 0 else self.lx

    def bisect(self, ax):
        if ax == 0:
            return (Rect(self.j, self.i, self.lt + 1, 2 * self.kt, self.lx, self.kx),
                    Rect(self.j, self.i, self.lt + 1, 2 * self.kt + 1, self.lx, self.kx))
        return (Rect(self.j, self.i, self.lt, self.kt, self.lx + 1, 2 * self.kx),
                Rect(self.j, self.i, self.lt, self.kt, self.lx + 1, 2 * self.kx + 1))


class RefMesh:
    def __init__(self, n_t, n_x, glued, leaves=None):
        self.n_t, self.n_x, self.glued = n_t, n_x, glued
        if leaves is None:
            leaves = [Rect(j, i, 0, 0, 0, 0) for j in range(n_t) for i in range(n_x)]
        self.leaves = set(leaves)

    def copy(self):
        return RefMesh(self.n_t, self.n_x, self.glued, set(self.leaves))

    # -- geometry -----------------------------------------------------------------------------
    def _index(self):
        """Leaves bucketed by the coordinate of each of their four sides (rebuilt when the leaf set changed)."""
        sig = (len(self.leaves), id(self.leaves))
        if getattr(self, '_idx_sig', None) != sig or getattr(self, '_idx_n', -1) != len(self.leaves):
            idx = {0: {}, 1: {}, 2: {}, 3: {}}
            for b in self.leaves:
                idx[0].setdefault(b.t0, []).append(b)
                idx[2].setdefault(b.t1, []).append(b)
                idx[3].setdefault(b.x0, []).append(b)
                idx[1].setdefault(b.x1, []).append(b)
            self._idx, self._idx_sig, self._idx_n = idx, sig, len(self.leaves)
        return self._idx

    def side_neighbours(self, a, side):
        """Leaves sharing a piece of positive length of side `side` of a.
        side: 0 = bottom (t = t0), 1 = right (x = x1), 2 = top (t = t1), 3 = left (x = x0)
        (the edge numbering of src/mesh.py's Element.edges, used here only as labels)."""
        idx = self._index()
        out = []
        L = self.n_x * SCALE
        if side == 0:
            cands = idx[2].get(a.t0, [])
        elif side == 2:
            cands = idx[0].get(a.t1, [])
        elif side == 1:
            cands = list(idx[3].get(a.x1, []))
            if self.glued and a.x1 == L:
                cands += idx[3].get(0, [])
        else:
            cands = list(idx[1].get(a.x0, []))
            if self.glued and a.x0 == 0:
                cands += idx[1].get(L, [])
        for b in cands:
            if b is a or b == a:
                # a leaf spanning the whole closed curve meets itself through the identified seam
                if self.glued and side in (1, 3) and a.x0 == 0 and a.x1 == L:
                    out.append(b)
                continue
            if side in (0, 2):
                if min(a.x1, b.x1) > max(a.x0, b.x0):
                    out.append(b)
            else:
                if min(a.t1, b.t1) > max(a.t0, b.t0):
                    out.append(b)
        return out

    def on_param_boundary(self, a, side):
        """Side lies on the boundary of the parameter rectangle [0,T] x [0,L]."""
        if side == 0:
            return a.t0 == 0
        if side == 2:
            return a.t1 == self.n_t * SCALE
        return a.x1 == self.n_x * SCALE if side == 1 else a.x0 == 0

    def on_seam(self, a, side):
        return self.glued and side in (1, 3) and self.on_param_boundary(a, side)

    def on_boundary(self, a, side):
        """True boundary: t = 0, t = T, or an end of an open curve (seam edges are not)."""
        return self.on_param_boundary(a, side) and not self.on_seam(a, side)

    def neighbours(self, a):
        out = []
        for s in range(4):
            out.extend(self.side_neighbours(a, s))
        return out

    def irregular_pairs(self):
        bad = []
        for a in self.leaves:
            for b in self.neighbours(a):
                for ax in (0, 1):
                    if a.level(ax) - b.level(ax) >= 2:
                        bad.append((a, b, ax))
        return bad

    def is_tiling(self):
        """Exact area + pairwise disjointness in index space (sweep over x with the active leaves)."""
        area = sum((r.t1 - r.t0) * (r.x1 - r.x0) for r in self.leaves)
        if area != self.n_t * self.n_x * SCALE * SCALE:
            return False
        events = sorted(self.leaves, key=lambda r: (r.x0, r.t0))
        active = []
        for a in events:
            active = [b for b in active if b.x1 > a.x0]
            for b in active:
                if min(a.t1, b.t1) > max(a.t0, b.t0):
                    return False
            active.append(a)
        return True

    # -- the closure rule ---------------------------------------------------------------------
    def closure_set(self, requests):
        """Least set S of (leaf, ax) containing `requests` and closed under: (A, ax) in S and N an
        edge-neighbour of A with level_ax(N) < level_ax(A)  =>  (N, ax) in S.  Computed as a
        fixpoint over the *current* leaves; no processing order is involved."""
        S = set(requests)
        changed = True
        while changed:
            changed = False
            for (a, ax) in list(S):
                for n in self.neighbours(a):
                    if n.level(ax) < a.level(ax) and (n, ax) not in S:
                        S.add((n, ax))
                        changed = True
        return S

    def apply(self, S):
        """Bisect every (leaf, ax) of S (a leaf may be in S for both axes -> four quarters)."""
        self._idx_sig = None  # adjacency index is stale after this
        by_leaf = {}
        for (a, ax) in S:
            by_leaf.setdefault(a, set()).add(ax)
        for a, axes in by_leaf.items():
            self.leaves.discard(a)
            parts = [a]
            for ax in sorted(axes):
                parts = [c for p in parts for c in p.bisect(ax)]
            self.leaves.update(parts)

    def refine_axis(self, a, ax):
        """Least 1-irregular refinement containing the bisection of leaf a in axis ax."""
        assert a in self.leaves
        S = self.closure_set([(a, ax)])
        self.apply(S)
        return S

    def refine_many(self, leaves, ax):
        """Least 1-irregular refinement containing the bisection of every given leaf in axis ax:
        iterate single closures until every requested leaf is bisected (order-free: the result is
        the union closure because closures of different requests only add bisections)."""
        done = set()
        for a in sorted(leaves, key=lambda r: r.key()):
            if a in self.leaves:
                done |= self.refine_axis(a, ax)
        return done

    def necessary(self, before, S, requests):
        """Every forced bisection (N, ax) in S minus requests is necessary: leaving N unbisected while
        performing the rest violates 1-irregularity."""
        for (n, ax) in S:
            if (n, ax) in requests:
                continue
            trial = before.copy()
            trial.apply({s for s in S if s != (n, ax)})
            if not any(b == n and axx == ax for (a, b, axx) in trial.irregular_pairs()):
                return False, (n, ax)
        return True, None
