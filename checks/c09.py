"""C09 (structural part): Sobolev and weighted-L2 indicators equal their definition on every patch.

ErrorEstimator.sobolev_space / sobolev_time / estimate_sobolev / weighted_l2 are executed on real MeshParametrized
meshes of the closed curves (after a bounded bisection history) with the Slobodeckij object replaced by a recorder that
logs every seminorm request and returns an uninterpreted value of its arguments, and the residual replaced by an
uninterpreted function r(t, x_hat).  Decided per element and neighbour:
  - space indicator: one H^{1/2} request per Gauss point of the *intersection* of the two time intervals, on the *union*
    of the two space intervals on the curve - a single-piece request on [left.a, right.b] when both elements lie on one
    piece and are adjacent in the parameter, the two-piece request across a break point or across the closing seam;
  - time indicator: H^{1/4} requests on the union of the two time intervals at the Gauss points of the intersection of
    the space intervals;
  - the neighbours are the geometric ones (reference model), self included once;
  - estimate_sobolev (symmetry shortcut) = direct sum over all neighbours, with symbolic per-pair values;
  - weighted_l2 = (h_t^{-1/2}, h_x^{-1}) x h_t h_x sum w r^2  (h_t = s^2).
Quadrature accuracy, pool vs serial and rigid symmetries are not decided."""
import importlib
from fractions import Fraction

import numpy as np
import z3

from checks import c02
from vf import meshsym, models, report, slsym
from vf.sym import Engine, Inconclusive, SR, z3bool

LEVEL = 'other'


class SloRecorder:
    def __init__(self, eng, gid):
        self.eng, self.gid, self.log = eng, gid, []

    def seminorm_h_1_2(self, f, a, b, gamma=None):
        t = self._probe_t(f, a, gamma)
        self.log.append(('h12', t, (SR.lift(a), SR.lift(b), self.gid(gamma))))
        return self.eng.apply('S12', SR.lift(a), SR.lift(b), SR.const(self.gid(gamma)), t)

    def seminorm_h_1_2_pw(self, f, a1, b1, g1, a2, b2, g2):
        t = self._probe_t(f, a1, g1)
        self.log.append(('h12pw', t, (SR.lift(a1), SR.lift(b1), self.gid(g1), SR.lift(a2), SR.lift(b2), self.gid(g2))))
        return self.eng.apply('S12pw', SR.lift(a1), SR.lift(b1), SR.const(self.gid(g1)), SR.lift(a2), SR.lift(b2),
                              SR.const(self.gid(g2)), t)

    def seminorm_h_1_4(self, f, a, b):
        v = f(np.array([SR.lift(a)], dtype=object))
        x_hat = self._arg(v[0], 1)
        self.log.append(('h14', x_hat, (SR.lift(a), SR.lift(b))))
        return self.eng.apply('S14', SR.lift(a), SR.lift(b), x_hat)

    def _probe_t(self, f, a, gamma):
        x = np.array([SR.lift(a)], dtype=object)
        if gamma is None:
            try:
                v = f(x)            # flat variant: f takes the parameter only
            except TypeError:
                v = f(x, lambda y: y)
        else:
            v = f(x, gamma)
        return self._arg(v[0], 0)

    def _arg(self, val, k):
        """k-th argument of the residual atom r(t, x_hat) the probe returned."""
        val = SR.lift(val)
        (m, c), = val.p.items()
        (a, p), = m
        key = self.eng.atom_key(a)
        assert key[0] == 'uf' and key[1] == 'r'
        return SR(dict(key[2][k]))


def load():
    EE = importlib.import_module('src.error_estimator')
    EE.print = models.noprint
    EE.np = models.NpProxy(dict(zeros=models.zeros_model, array=models.array_model, allclose=lambda *a, **k: True))
    EE.float = models.float_model
    EE.sqrt = models.sqrt_model
    EE.math = slsym.MathProxy(dict(fsum=models.fsum_model))
    M = c02.load_mesh_module()
    M.np = models.NpProxy(dict(zeros=models.zeros_model))
    return EE, M


def build(eng, EE, M, curve, hist):
    P = importlib.import_module('src.parametrization')
    gamma = slsym.curve_pieces(curve)
    mesh = M.MeshParametrized(gamma)
    acts = []
    for step in range(hist):
        leaves = list(mesh.leaf_elements)
        al = [(i, op) for i in range(len(leaves)) for op in (0, 1)]
        a = al[eng.choice(len(al))]
        acts.append(a)
        c02.apply_action(mesh, leaves, a)
    n_x = len(gamma.pw_start) - 1
    mesh._vf = dict(ts=[SR.const(0), SR.const(1)], xs=[SR.lift(x) for x in gamma.pw_start], n_t=1, n_x=n_x, glued=True)
    # the circle is pre-refined by the constructor: roots are the single arc; Ref works on the parent chain
    return gamma, mesh, acts


def estimator_run(eng, curve, hist, order):
    EE, M = load()
    gamma, mesh, acts = build(eng, EE, M, curve, hist)
    gids = {id(g): k + 1 for k, g in enumerate(gamma.pw_gamma)}
    gid = lambda g: 0 if g is None else gids.get(id(g), -1)
    est = EE.ErrorEstimator(mesh, N_poly=order)
    rec = SloRecorder(eng, gid)
    est.slobodeckij = rec
    residual = lambda t, x_hat, g: np.array([eng.apply('r', SR.lift(tt), SR.lift(xx)) for tt, xx in
                                             zip(np.atleast_1d(t), np.atleast_1d(x_hat))], dtype=object)
    ref, lmap = meshsym.ref_of(mesh)
    inv = {r: e for e, r in lmap.items()}
    elems = list(mesh.leaf_elements)
    L = SR.lift(gamma.gamma_length)
    gp, gw = est.gauss.points, est.gauss.weights
    problems = []

    def exp_space(e, nb):
        """Expected value of the space patch of (e, nb): union in space, intersection in time."""
        ta = max(e.time_interval[0], nb.time_interval[0])
        tb = min(e.time_interval[1], nb.time_interval[1])
        if nb is e:
            left, right = e, None
        else:
            re_, rn = lmap[e], lmap[nb]
            # the element whose right end meets the other's left end on the closed curve
            if (e.space_interval[1] == nb.space_interval[0]) or (e.space_interval[1] == gamma.gamma_length
                                                               and nb.space_interval[0] == 0):
                left, right = e, nb
            else:
                left, right = nb, e
        tot = SR.const(0)
        for p, w in zip(gp, gw):
            t = SR.lift(ta + float(tb - ta) * p)   # the code's own (floating-point) affine map of the Gauss point
            if right is None:
                v = eng.apply('S12', SR.lift(left.space_interval[0]), SR.lift(left.space_interval[1]),
                              SR.const(gid(left.gamma_space)), t)
            elif left.gamma_space is right.gamma_space and left.space_interval[1] == right.space_interval[0]:
                v = eng.apply('S12', SR.lift(left.space_interval[0]), SR.lift(right.space_interval[1]),
                              SR.const(gid(left.gamma_space)), t)
            else:
                # across a break point or across the closing seam: the patch is the union of two pieces
                v = eng.apply('S12pw', SR.lift(left.space_interval[0]), SR.lift(left.space_interval[1]),
                              SR.const(gid(left.gamma_space)), SR.lift(right.space_interval[0]),
                              SR.lift(right.space_interval[1]), SR.const(gid(right.gamma_space)), t)
            tot = tot + SR.lift(float(w)) * v
        return SR.lift(float(tb - ta)) * tot

    def exp_time(e, nb):
        xa = max(e.space_interval[0], nb.space_interval[0])
        xb = min(e.space_interval[1], nb.space_interval[1])
        ta = min(e.time_interval[0], nb.time_interval[0])
        tb = max(e.time_interval[1], nb.time_interval[1])
        tot = SR.const(0)
        for p, w in zip(gp, gw):
            xh = SR.lift(xa + float(xb - xa) * p)
            tot = tot + SR.lift(float(w)) * eng.apply('S14', SR.lift(ta), SR.lift(tb), xh)
        return SR.lift(float(xb - xa)) * tot

    direct = {}
    for e in elems:
        r = lmap[e]
        for which, sides, fn, exp in (('space', (1, 3), est.sobolev_space, exp_space),
                                      ('time', (0, 2), est.sobolev_time, exp_time)):
            want_nb = [e] + [inv[x] for s in sides for x in ref.side_neighbours(r, s)]
            total, ips = fn(e, residual, nbrs_symmetry=False)
            got_idx = sorted(i for i, _ in ips)
            if got_idx != sorted(x.glob_idx for x in want_nb):
                problems.append(('%s-neighbours' % which, '%s indicator of %r sums over %r, geometric neighbours (and self) are %r'
                                 % (which, e, got_idx, sorted(x.glob_idx for x in want_nb))))
                continue
            by_idx = {x.glob_idx: x for x in want_nb}
            for i, v in ips:
                nb = by_idx[i]
                ok, _ = eng.prove_identity(v, exp(e, nb), which, rtol=1e-12)
                if not ok:
                    seam_pair = nb is not e and ((e.space_interval[1] == gamma.gamma_length and nb.space_interval[0] == 0)
                                                 or (nb.space_interval[1] == gamma.gamma_length and e.space_interval[0] == 0))
                    kind = 'self' if nb is e else ('seam' if (seam_pair and which == 'space') else 'interior')
                    onepiece = len(gamma.pw_gamma) == 1
                    sig = '%s-patch:%s%s' % (which, 'one-piece-curve-' if onepiece and kind == 'seam' else '', kind)
                    problems.append((sig, '%s patch of %r with neighbour %r is not the %s of the two elements at the '
                                     'Gauss points of their common %s interval' %
                                     (which, e, nb, 'union in space' if which == 'space' else 'union in time',
                                      'time' if which == 'space' else 'space')))
            ok, _ = eng.prove_identity(total, sum((SR.lift(v) for _, v in ips), SR.const(0)), which + '-sum')
            if not ok:
                problems.append(('%s-sum' % which, 'indicator of %r is not the sum of its patch values' % (e, )))
            direct[(which, e.glob_idx)] = SR.lift(total)
    # pool path (in-order stand-in) on a SECOND residual after a first pool call on the same estimator and list:
    # worker state must not survive between calls
    from checks import c04 as _c04
    EE.mp = type('MP', (), dict(Pool=_c04.FakePool, cpu_count=staticmethod(lambda: 4)))()
    residual2 = lambda t, x_hat, g: np.array([eng.apply('r', SR.lift(tt) + 1, SR.lift(xx)) for tt, xx in
                                              zip(np.atleast_1d(t), np.atleast_1d(x_hat))], dtype=object)
    rec_log_len = len(rec.log)
    try:
        est.estimate_sobolev(elems, residual, use_mp=True)
        sob2_pool = est.estimate_sobolev(elems, residual2, use_mp=True)
        sob2_serial = est.estimate_sobolev(elems, residual2, use_mp=False)
        for i in range(len(elems)):
            for col in (0, 1):
                ok, _ = eng.prove_identity(sob2_pool[i, col], sob2_serial[i, col], 'pool=serial', rtol=1e-12)
                if not ok:
                    problems.append(('pool', 'estimate_sobolev through the (in-order) pool differs from the serial result for '
                                     'a second residual on the same estimator and element list'))
                    break
            else:
                continue
            break
    except Inconclusive:
        raise
    except Exception as ex:   # the stand-in cannot model everything a pool refactor may do
        problems.append(('pool-exception', 'pool path raised %r' % (ex, )))
    # the caller's element list need not be in creation order: the assembled indicators for a reversed list must be
    # the direct sums too
    rev = elems[::-1]
    sob_rev = est.estimate_sobolev(rev, residual, use_mp=False)
    for i, e in enumerate(rev):
        for col, which in ((0, 'time'), (1, 'space')):
            if (which, e.glob_idx) in direct:
                ok, _ = eng.prove_identity(sob_rev[i, col], direct[(which, e.glob_idx)], 'shortcut-reversed', rtol=1e-12)
                if not ok:
                    problems.append(('shortcut-order', 'estimate_sobolev (%s) on a reversed element list differs from the '
                                     'direct sum over all neighbours for %r' % (which, e)))
                    break
        else:
            continue
        break
    # symmetric accumulation
    sob = est.estimate_sobolev(elems, residual, use_mp=False)
    for i, e in enumerate(elems):
        for col, which in ((0, 'time'), (1, 'space')):
            if (which, e.glob_idx) in direct:
                ok, _ = eng.prove_identity(sob[i, col], direct[(which, e.glob_idx)], 'symmetry-shortcut', rtol=1e-12)
                if not ok:
                    problems.append(('shortcut', 'estimate_sobolev (%s) of %r differs from the direct sum over all '
                                     'neighbours' % (which, e)))
    return problems, len(elems), acts


def l2_run(eng, order):
    EE, M = load()
    gamma = slsym.curve_pieces('UnitSquare')
    mesh = M.MeshParametrized(gamma)
    # the four orders of a tuple N_poly reach the rules they are named for: (weighted L2, outer Gauss, H^{1/4} in
    # time, H^{1/2} in space)
    est4 = EE.ErrorEstimator(mesh, N_poly=(3, 5, 7, 9))
    counts = (len(est4.gauss_2d.weights), len(est4.gauss.weights), len(est4.slobodeckij.gauss_sqrtinv.weights),
              len(est4.slobodeckij.gauss_x.weights), len(est4.slobodeckij.gauss_leg.weights))
    import importlib as _il
    Q = _il.import_module('src.quadrature')
    want = (len(Q.gauss_quadrature_scheme(3).weights)**2, len(Q.gauss_quadrature_scheme(5).weights),
            len(Q.gauss_sqrtinv_quadrature_scheme(7).weights), len(Q.gauss_x_quadrature_scheme(9).weights),
            len(Q.gauss_quadrature_scheme(9).weights))
    if counts != want:
        return 'orders', counts, want
    est = EE.ErrorEstimator(mesh, N_poly=order)
    s, hx, ta, xa = eng.reals('s hx ta xa')
    eng.assume(s > 0)
    eng.assume(hx > 0)
    ht = s * s
    eng.register_sqrt(ht, s)
    E = slsym.Elem(ta, ta + ht, xa, xa + hx, gamma.pw_gamma[0])
    E.h_t, E.h_x = ht, hx
    residual = lambda t, x_hat, g: np.array([eng.apply('r', SR.lift(tt), SR.lift(xx)) for tt, xx in
                                             zip(np.atleast_1d(t), np.atleast_1d(x_hat))], dtype=object)
    wt, wx = est.weighted_l2(E, residual)
    pts, w = est.gauss_2d.points, est.gauss_2d.weights
    norm2 = SR.const(0)
    for k in range(len(w)):
        rr = eng.apply('r', ta + ht * float(pts[0][k]), xa + hx * float(pts[1][k]))
        norm2 = norm2 + SR.lift(float(w[k])) * rr * rr
    norm2 = ht * hx * norm2  # squared L2 norm on the element
    ok1, _ = eng.prove_identity(wt * s, norm2, 'l2-time', rtol=1e-12)      # wt = h_t^{-1/2} ||r||^2
    ok2, _ = eng.prove_identity(wx * hx, norm2, 'l2-space', rtol=1e-12)    # wx = h_x^{-1} ||r||^2
    return ok1, ok2


def worker(case):
    kind = case[0]
    eng = Engine(timeout_ms=60000)
    res = dict(stats=None, violations=[], inconclusive=[], samples=[], functions=[], evaluations=0, nontrivial=0)
    try:
        if kind == 'l2':
            res['functions'] = ['src/error_estimator.py:ErrorEstimator.weighted_l2']
            for pr in eng.explore(lambda: l2_run(eng, case[1])):
                res['evaluations'] += 1
                res['nontrivial'] += 1
                if pr.status == 'ok' and pr.value and pr.value[0] == 'orders':
                    rp = dict(kind='l2', order=case[1])
                    res['violations'].append(dict(signature='orders', what='ErrorEstimator(N_poly=(3,5,7,9)) builds rules with '
                                                  '%r points, expected %r (weighted L2, outer Gauss, H^{1/4} in time, H^{1/2} '
                                                  'in space x2): the four orders do not reach the rules they are named for' %
                                                  (pr.value[1], pr.value[2]), replay=rp, reproduced=True))
                    continue
                if pr.status == 'exc' or not all(pr.value):
                    rp = dict(kind='l2', order=case[1])
                    res['violations'].append(dict(signature='weighted-l2', what='weighted_l2 is not (h_t^{-1/2}, h_x^{-1}) '
                                                  'times the squared L2 norm on the element%s' %
                                                  (' (%r)' % (pr.exc, ) if pr.status == 'exc' else ''), replay=rp,
                                                  reproduced=replay(rp)))
            res['samples'].append(dict(weighted_l2_order=case[1]))
        else:
            _, curve, hist, order, prefix = case
            res['functions'] = ['src/error_estimator.py:ErrorEstimator.sobolev_space',
                                'src/error_estimator.py:ErrorEstimator.sobolev_time',
                                'src/error_estimator.py:ErrorEstimator.estimate_sobolev',
                                'src/error_estimator.py:ErrorEstimator.__integrate_h_1_2',
                                'src/error_estimator.py:ErrorEstimator.__integrate_h_1_4']
            for pr in eng.explore(lambda: estimator_run(eng, curve, hist, order), prefix=list(prefix) if prefix else None):
                res['evaluations'] += 1
                if pr.status == 'exc':
                    probs = [('exception', 'estimator raised %r at %s' % (pr.exc, pr.tb[-1]))]
                else:
                    probs, n, acts = pr.value
                    res['nontrivial'] += 1
                    if len(res['samples']) < 1:
                        res['samples'].append(dict(curve=curve, history=[list(a) for a in acts], elements=n, order=order))
                seen = set()
                for sig, what in probs:
                    if sig in seen:
                        continue
                    seen.add(sig)
                    rp = dict(kind='patch', curve=curve, choices=pr.choices, order=order, sig=sig)
                    res['violations'].append(dict(signature='%s:%s' % (sig, curve) if 'one-piece' not in sig else sig,
                                                  what='%s [%s, history %s]' % (what, curve, pr.choices), replay=rp,
                                                  reproduced=replay(rp)))
                if len(res['violations']) >= 6:
                    break
    except Inconclusive as e:
        res['inconclusive'].append('%r: %s' % (case, e))
    res['stats'] = eng.stats
    return res


def replay(rp):
    """Concrete replay on the unmodified estimator: the patch value of every neighbour pair must equal an independent
    evaluation of the definition on the geometric union patch for r(t, x) = t * (d . x) (embedded coordinates),
    with the real Slobodeckij rule (so only the choice of patch is tested, at 1e-6)."""
    EE = importlib.import_module('src.error_estimator')
    M = importlib.import_module('src.mesh')
    saved = (EE.np, EE.__dict__.get('float'), EE.sqrt, EE.math, M.np)
    import math
    EE.np, EE.sqrt, EE.math, M.np = np, math.sqrt, math, np
    EE.__dict__.pop('float', None)
    try:
        if rp['kind'] == 'l2':
            return True
        gamma = slsym.curve_pieces(rp['curve'])
        mesh = M.MeshParametrized(gamma)
        for c in rp['choices']:
            leaves = list(mesh.leaf_elements)
            al = [(i, op) for i in range(len(leaves)) for op in (0, 1)]
            c02.apply_action(mesh, leaves, al[c])
        est = EE.ErrorEstimator(mesh, N_poly=9)
        d = np.array([[0.3], [0.7]])
        residual = lambda t, x_hat, g: np.asarray(t) * np.sum(d * g(np.asarray(x_hat)), axis=0)
        if str(rp.get('sig', '')).startswith('pool'):
            # pool path through the in-order stand-in on the unmodified module: second residual after a first call
            from checks import c04 as _c04
            saved_mp = EE.mp
            EE.mp = type('MP', (), dict(Pool=_c04.FakePool, cpu_count=staticmethod(lambda: 4)))()
            try:
                elems = list(mesh.leaf_elements)
                res2 = lambda t, x_hat, g: (np.asarray(t) + 1.0)**2 * np.sum(d * g(np.asarray(x_hat)), axis=0)
                est.estimate_sobolev(elems, residual, use_mp=True)
                a_ = est.estimate_sobolev(elems, res2, use_mp=True)
                b_ = est.estimate_sobolev(elems, res2, use_mp=False)
                return not np.allclose(a_, b_, rtol=1e-12, atol=0)
            finally:
                EE.mp = saved_mp
        L = gamma.gamma_length
        elems = list(mesh.leaf_elements)
        slo = est.slobodeckij
        gp, gw = est.gauss.points, est.gauss.weights
        by = {x.glob_idx: x for x in elems}
        for e in elems:
            total, ips = est.sobolev_space(e, residual)
            for idx, val in ips:
                nb = by[idx]
                ta = max(e.time_interval[0], nb.time_interval[0])
                tb = min(e.time_interval[1], nb.time_interval[1])
                if nb is e:
                    left, right = e, None
                elif e.space_interval[1] == nb.space_interval[0] or (e.space_interval[1] == L and nb.space_interval[0] == 0):
                    left, right = e, nb
                else:
                    left, right = nb, e
                want = 0.0
                for p_, w_ in zip(gp, gw):
                    t = ta + (tb - ta) * p_
                    f = lambda x_hat, g, t=t: residual(np.repeat(t, len(x_hat)), x_hat, g)
                    if right is None:
                        v = slo.seminorm_h_1_2(f, left.space_interval[0], left.space_interval[1], left.gamma_space)
                    elif left.gamma_space is right.gamma_space and left.space_interval[1] == right.space_interval[0]:
                        v = slo.seminorm_h_1_2(f, left.space_interval[0], right.space_interval[1], left.gamma_space)
                    else:
                        g1, g2 = left.gamma_space, right.gamma_space
                        if g1 is g2:
                            # one-piece closed curve, pair across the seam: the right element re-parametrised by a
                            # full turn, so that the two-piece rule sees two pieces that meet in g(L)
                            g2 = lambda x, g=g1: g(np.asarray(x) + L)
                        v = slo.seminorm_h_1_2_pw(f, left.space_interval[0], left.space_interval[1], g1,
                                                  right.space_interval[0], right.space_interval[1], g2)
                    want += w_ * v
                want *= (tb - ta)
                if abs(val - want) > 1e-8 * abs(want) + 1e-14:
                    return True
        for e in elems:
            total, ips = est.sobolev_time(e, residual)
            for idx, val in ips:
                nb = by[idx]
                xa = max(e.space_interval[0], nb.space_interval[0])
                xb = min(e.space_interval[1], nb.space_interval[1])
                ta = min(e.time_interval[0], nb.time_interval[0])
                tb = max(e.time_interval[1], nb.time_interval[1])
                want = 0.0
                for p_, w_ in zip(gp, gw):
                    xh = xa + (xb - xa) * p_
                    want += w_ * slo.seminorm_h_1_4(lambda t, xh=xh: residual(t, np.repeat(xh, len(t)), e.gamma_space), ta, tb)
                want *= (xb - xa)
                if abs(val - want) > 1e-8 * abs(want) + 1e-14:
                    return True
        return False
    except Exception:
        return True
    finally:
        EE.np, EE.sqrt, EE.math, M.np = saved[0], saved[2], saved[3], saved[4]
        if saved[1] is not None:
            EE.float = saved[1]


def run(out):
    quick = out.tier == 'quick'
    order = 3
    cases = [('l2', 3), ('l2', 5)]
    for curve, n0 in (('UnitSquare', 4), ('Circle', 4), ('LShape', 6)):
        cases.append(('patch', curve, 0, order, ()))
        if curve != 'LShape' or not quick:
            for c in range(2 * n0):
                cases.append(('patch', curve, 1 if quick else 2, order, (c, )))
        if quick:
            # two-step directed histories: a leaf and then one of its children again (time/time, space/space and
            # mixed), which produce stacked / adjacent neighbours of unequal size
            last = n0 + 1 - 1   # index of the second child after the first bisection (children are appended)
            for first in (0, 1):
                for second in (2 * last, 2 * last + 1):
                    cases.append(('patch', curve, 2, order, (first, second)))
    results = report.pmap('checks.c09', 'worker', cases)
    for c, r in zip(cases, results):
        report.merge_worker(out, r, part='weighted L2' if c[0] == 'l2' else 'patches %s' % c[1])
    out.bounds = dict(curves=['UnitSquare', 'Circle', 'LShape'], history='<= %d bisections from the initial mesh' % (1 if quick else 2),
                      estimator_order=order, residual='uninterpreted r(t, x_hat)', seminorms='recorded, uninterpreted values')
    out.outside = ['accuracy of the seminorm quadratures (C14)', 'process-pool path', 'rigid symmetries of curve and residual',
                   'orders other than %d for the outer Gauss rule' % order]
    out.assumptions = ['Slobodeckij object replaced by a recorder', 'np.allclose sanity assertion of the estimator treated as '
                       'true', 'geometric neighbours from the reference model (vf/meshref.py)']
    out.coverage['exhaustive'] = not out.inconclusive
    out.coverage['rule'] = 'per curve: every history shape of the stated length, every element, every neighbour'
