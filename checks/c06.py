"""C06: Doerfler marking refines a minimal bulk set, in exactly the marked directions.

dorfler_refine_isotropic / dorfler_refine_anisotropic are executed on real meshes (small root grid + bounded
bisection history) with *symbolic indicators* eta_i >= 0 and *symbolic theta* in (0,1).  Every comparison made
by np.argsort / list.sort / the accumulation loop forks the exploration, so all rank orders, ties and prefix
lengths are covered.  Per path z3 decides that the marked set (observed as the arguments the routine hands to
refine_time / refine_space) is a shortest prefix of a descending order reaching theta^2 * total, and the
resulting leaves must equal Ref's least 1-irregular closure of the marked time bisections followed by the
marked space bisections.  Any exception on a feasible path is a violation ("never fails")."""
import importlib
from fractions import Fraction

import numpy as np
import z3

from checks import c02
from vf import meshsym, models, report
from vf.sym import Engine, Inconclusive, PathAbort, SR, z3bool, z3real

LEVEL = 'model_checking'
TOTAL = 3

QUICK = dict(grids=['1x1g', '2x1g', '3x1g', '1x2g'], hist=1, max_iso=4, max_aniso=3)
THOROUGH = dict(grids=['1x1g', '2x1g', '3x1g', '3x1o', '1x2g', '2x2o'], hist=2, max_iso=4, max_aniso=3)


def setup_mesh(M, gridname, hist, eng, actions=None):
    n_t, n_x, glued = meshsym.GRIDS[gridname]
    xs = [float(x) for x in c02.DEFAULT_X[:n_x + 1]]
    ts = [float(t) for t in c02.DEFAULT_T[:n_t + 1]]
    mesh = M.Mesh(glue_space=glued, initial_space_mesh=xs, initial_time_mesh=ts)
    mesh._vf = dict(ts=[SR.lift(t) for t in ts], xs=[SR.lift(x) for x in xs], n_t=n_t, n_x=n_x, glued=glued)
    done = []
    for step in range(hist):
        leaves = list(mesh.leaf_elements)
        acts = [(i, op) for i in range(len(leaves)) for op in (0, 1)] + [(-1, 9)]
        act = tuple(actions[step]) if actions is not None else acts[eng.choice(len(acts))]
        done.append(list(act))
        if act[1] != 9:
            c02.apply_action(mesh, leaves, act)
        elif actions is None and step + 1 < hist:
            # canonical form: no-ops only at the end of the history
            pass
    return mesh, done


def spec_claims(vals, marked_idx, q, total):
    """z3 formula: marked (list of indices into vals) is a shortest prefix of a descending order reaching
    theta^2*total."""
    th2 = q * total
    sm = SR.const(0)
    for i in marked_idx:
        sm = sm + vals[i]
    cl = [z3bool(sm >= th2)]
    for i in marked_idx:
        is_min = z3.And([z3bool(vals[i] <= vals[j]) for j in marked_idx if j != i] or [z3.BoolVal(True)])
        cl.append(z3.Implies(is_min, z3bool(sm - vals[i] < th2)))
    un = [j for j in range(len(vals)) if j not in marked_idx]
    for u in un:
        for i in marked_idx:
            cl.append(z3bool(vals[u] <= vals[i]))
    return z3.And(cl)


def run_doerfler(eng, M, gridname, hist, variant, max_leaves, fail, concrete=None):
    mesh, acts = setup_mesh(M, gridname, hist, eng, actions=concrete['actions'] if concrete else None)
    leaves = list(mesh.leaf_elements)
    n = len(leaves)
    if n > max_leaves:
        raise PathAbort()
    nk = n if variant == 'iso' else 2 * n
    if concrete:
        eta = [concrete['eta'][i] for i in range(nk)]
        theta = concrete['theta']
    else:
        # indicators normalised to sum TOTAL (the routine is homogeneous in them), theta carried as q = theta^2:
        # every comparison of the routine is then linear in (eta, q)
        eta = [eng.real('eta%d' % i) for i in range(nk - 1)]
        last = SR.const(TOTAL)
        for e in eta:
            eng.assume(e >= 0)
            last = last - e
        eng.assume(last >= 0)
        eta.append(last)
        q = eng.real('q')
        eng.assume(q > 0)
        eng.assume(q < 1)
        theta = models.ThetaModel(q)
    ref, lmap = meshsym.ref_of(mesh)
    rects = [lmap[e] for e in leaves]
    # observe what the routine hands to refine_time / refine_space
    calls = {0: [], 1: []}
    o_rt, o_rs = mesh.refine_time, mesh.refine_space
    mesh.refine_time = lambda e: (calls[0].append(e), o_rt(e))[1]
    mesh.refine_space = lambda e: (calls[1].append(e), o_rs(e))[1]
    try:
        if variant == 'iso':
            arr = np.array(eta, dtype=object) if not concrete else np.array(eta, dtype=float)
            mesh.dorfler_refine_isotropic(arr, theta)
        else:
            # memory layout of the caller's (N, 2) array alternates with (number of leaves + history length): C-ordered (np.zeros)
            # or Fortran-ordered (np.array([eta_t, eta_x]).T) - the routine must address it by index, not by memory
            arr = np.empty((n, 2), dtype=object if not concrete else float, order='F' if (n + len(acts)) % 2 else 'C')
            for i in range(n):
                arr[i, 0], arr[i, 1] = eta[i], eta[n + i]
            mesh.dorfler_refine_anisotropic(arr, theta)
    finally:
        del mesh.refine_time, mesh.refine_space
    vals = [SR.lift(Fraction(v)) if concrete else v for v in eta]
    q_spec = SR.lift(Fraction(theta))**2 if concrete else theta.q
    total = SR.const(0)
    for v in vals:
        total = total + v
    idx_of = {id(e): i for i, e in enumerate(leaves)}
    if variant == 'iso':
        marked = []
        for e in calls[0]:
            if id(e) not in idx_of:
                fail('marked-nonleaf', 'refine_time was requested for a non-original leaf %r' % (e, ), None)
            else:
                marked.append(idx_of[id(e)])
        keys = sorted(set(marked))
        spec = spec_claims(vals, keys, q_spec, total)
        ok, m = eng.prove(spec, 'bulk-prefix')
        if not ok:
            fail('bulk-prefix', 'marked set %r is not a shortest descending prefix reaching theta^2*total' %
                 ([rects[i] for i in keys], ), m, z3.Not(spec))
        # expected mesh
        exp = ref.copy()
        exp.refine_many([rects[i] for i in keys], 0)
        halves = [h for i in keys for h in rects[i].bisect(0)]
        exp.refine_many(halves, 1)
    else:
        mt, ms = [], []
        for e in calls[0]:
            if id(e) in idx_of:
                mt.append(idx_of[id(e)])
            else:
                fail('marked-nonleaf', 'refine_time was requested for a non-original leaf %r' % (e, ), None)
        for e in calls[1]:
            if id(e) in idx_of:
                ms.append(idx_of[id(e)])
            elif e.parent is not None and id(e.parent) in idx_of:
                ms.append(idx_of[id(e.parent)])
            else:
                fail('marked-nonleaf', 'refine_space was requested for %r, not an original leaf or its time half' %
                     (e, ), None)
        keys = sorted(set(mt)) + sorted(set(n + i for i in ms))
        spec = spec_claims(vals, keys, q_spec, total)
        ok, m = eng.prove(spec, 'bulk-prefix')
        if not ok:
            fail('bulk-prefix', 'marked (element, direction) set %r is not a shortest descending prefix reaching '
                 'theta^2*total' % ([(rects[k % n], 'time' if k < n else 'space') for k in keys], ), m, z3.Not(spec))
        exp = ref.copy()
        exp.refine_many([rects[i] for i in sorted(set(mt))], 0)
        targets = []
        for i in sorted(set(ms)):
            r = rects[i]
            targets.extend([r] if r in exp.leaves else list(r.bisect(0)))
        exp.refine_many(targets, 1)
    got, _ = meshsym.ref_of(mesh)
    if got.leaves != exp.leaves:
        extra = sorted(got.leaves - exp.leaves, key=lambda r: r.key())[:3]
        missing = sorted(exp.leaves - got.leaves, key=lambda r: r.key())[:3]
        fail('closure', 'result differs from the least 1-irregular refinement of the marked bisections '
             '(code-only %r, expected-only %r; marked %r)' % (extra, missing, keys), None)
    meshsym.check_state(eng, mesh, fail, want_tiling=False, want_vertices=False)
    return acts, n, len(mesh.leaf_elements), len(keys)


def load():
    M = c02.load_mesh_module()
    # np.sqrt only feeds the routine's sanity assertion sqrt(cumsum) >= theta*sqrt(total): compared on the squares
    M.np = models.NpProxy(dict(sqrt=models.sqrt_term_model))
    return M


def worker(case):
    gridname, hist, variant, max_leaves, prefix, seed = case
    M = load()
    eng = Engine(timeout_ms=60000, seed=seed)
    res = dict(stats=None, violations=[], inconclusive=[], samples=[], functions=[], evaluations=0, nontrivial=0,
               part_extra=dict(states=0, transitions=0))
    cands = []

    def fail(sig, what, model, neg=None):
        cands.append((sig, what, model, neg))

    def body():
        cands.clear()
        return run_doerfler(eng, M, gridname, hist, variant, max_leaves, fail)

    try:
        for pr in eng.explore(body, prefix=list(prefix) if prefix else None):
            if pr.status == 'pruned':
                continue
            res['evaluations'] += 1
            if pr.status == 'exc':
                f = pr.tb[-1]
                cands.append(('exception:%s@%s:%s' % (type(pr.exc).__name__, f.filename.split('/')[-1], f.name),
                              '%s: %s at %s:%d (%s)' % (type(pr.exc).__name__, pr.exc, f.filename, f.lineno, f.line),
                              None, None))
            else:
                acts, n, nafter, nmarked = pr.value
                res['nontrivial'] += 1
                res['part_extra']['states'] += 1
                res['part_extra']['transitions'] += 1
                if len(res['samples']) < 1:
                    _, m = eng.feasible(True)
                    res['samples'].append(dict(grid=gridname, variant=variant, history=acts, leaves=n, marked=nmarked,
                                               leaves_after=nafter, example={k: str(v) for k, v in
                                                                             eng.model_inputs(m).items()}))
            for sig, what, model, neg in cands:
                acts = choices_to_actions(M, gridname, hist, pr.choices)
                ok, rp = False, None
                # prefer a model in which theta = sqrt(q) is a short dyadic number and all indicators are
                # dyadic, so that the float replay sees exactly the same ties
                cand_models = []
                for r in (Fraction(1, 2), Fraction(1, 4), Fraction(3, 4), Fraction(1, 8), Fraction(3, 8),
                          Fraction(5, 8), Fraction(7, 8), Fraction(1, 16), Fraction(15, 16)):
                    cond = z3bool(eng.real('q') == r * r)
                    if neg is not None:
                        cond = z3.And(cond, neg)
                    mm = eng.dyadic_model(cond, bits=10)
                    if mm is not None:
                        cand_models.append(mm)
                        break
                cand_models.append(model if model is not None else eng.feasible(True)[1])
                for mm in cand_models:
                    if mm is None:
                        continue
                    vals = eng.model_inputs(mm)
                    nk = len([k for k in vals if k.startswith('eta')]) + 1
                    ev = {('eta%d' % i): vals.get('eta%d' % i) for i in range(nk - 1)}
                    if any(v is None for v in ev.values()) or vals.get('q') is None:
                        continue
                    ev['eta%d' % (nk - 1)] = TOTAL - sum(ev.values())
                    rp = dict(grid=gridname, hist=hist, variant=variant, actions=acts,
                              eta={k: str(v) for k, v in ev.items()}, q=str(vals.get('q')))
                    if replay(rp):
                        ok = True
                        break
                res['violations'].append(dict(signature='%s:%s' % (variant, sig), what='%s [%s]' % (what, rp),
                                              replay=rp, reproduced=ok))
            cands.clear()
            if len(res['violations']) >= 3:
                break
    except Inconclusive as e:
        res['inconclusive'].append('%r: %s' % (case, e))
    res['stats'] = eng.stats
    return res


def choices_to_actions(M, gridname, hist, choices):
    n_t, n_x, glued = meshsym.GRIDS[gridname]
    mesh = M.Mesh(glue_space=glued, initial_space_mesh=c02.DEFAULT_X[:n_x + 1],
                  initial_time_mesh=c02.DEFAULT_T[:n_t + 1])
    acts = []
    for step in range(hist):
        leaves = list(mesh.leaf_elements)
        al = [(i, op) for i in range(len(leaves)) for op in (0, 1)] + [(-1, 9)]
        if step >= len(choices):
            break
        a = al[choices[step]]
        acts.append(list(a))
        if a[1] != 9:
            c02.apply_action(mesh, leaves, a)
    return acts


def replay(rp):
    M = load()
    try:
        n = len(rp['eta'])
        eta = [float(Fraction(rp['eta']['eta%d' % i])) for i in range(n)]
        import math
        q = Fraction(rp['q'])
        theta = math.sqrt(q)
        # only replay where theta is exactly representable, so that the float run sees the same ties
        exact_theta = Fraction(theta)**2 == q
    except Exception:
        return False
    if not (0 < theta < 1) or min(eta) < 0 or sum(eta) <= 0:
        return False
    if not exact_theta:
        # nudge: a non-square q is replayed with the nearest float theta (ties cannot be reproduced exactly)
        pass
    found = []

    def fail(sig, what, model, neg=None):
        found.append(sig)
    with Engine(timeout_ms=30000) as eng:
        try:
            run_doerfler(eng, M, rp['grid'], rp['hist'], rp['variant'], 10**6, fail,
                         concrete=dict(actions=rp['actions'], eta=eta, theta=theta))
        except Exception as e:
            found.append('exception:' + type(e).__name__)
    return bool(found)


def run(out):
    cfg = QUICK if out.tier == 'quick' else THOROUGH
    cases = []
    for g in cfg['grids']:
        n_t, n_x, glued = meshsym.GRIDS[g]
        n_first = 2 * n_t * n_x + 1
        for variant, mx in (('iso', cfg['max_iso']), ('aniso', cfg['max_aniso'])):
            for c in range(n_first):
                cases.append((g, cfg['hist'], variant, mx, (c, ), out.seed))
    results = report.pmap('checks.c06', 'worker', cases)
    for c, r in zip(cases, results):
        report.merge_worker(out, r, part='%s %s' % (c[0], c[2]))
    out.bounds = dict(grids=cfg['grids'], history=cfg['hist'], max_leaves_isotropic=cfg['max_iso'],
                      max_leaves_anisotropic=cfg['max_aniso'], indicators='symbolic reals >= 0 normalised to sum %d (homogeneity of the routine is assumed)' % TOTAL,
                      theta='carried as q = theta^2, a symbolic real in (0,1)')
    out.outside = ['meshes with more leaves than stated', 'sequences of marking steps', 'floating-point summation order']
    out.assumptions = ['real arithmetic; np.sqrt is the algebraic square root (fresh r >= 0 with r*r = x)',
                       'marked set observed as the arguments passed to refine_time / refine_space by the routine',
                       'Ref least closure (vf/meshref.py)']
    states = sum(p.get('states', 0) for p in out.parts.values())
    out.coverage['states'] = states
    out.coverage['transitions'] = states
    out.coverage['traces_validated_against_impl'] = states
    out.coverage['exhaustive'] = not out.inconclusive
    out.coverage['rule'] = ('every mesh reachable by the stated history on the stated grids (within the leaf bound) x '
                            'every feasible outcome pattern of the comparisons on symbolic indicators and theta')
    out.functions.update(['src/mesh.py:Mesh.dorfler_refine_isotropic', 'src/mesh.py:Mesh.dorfler_refine_anisotropic',
                          'src/mesh.py:Mesh.refine_axis'])
