"""C19: grading terminates without error, only refines, and leaves every leaf in the parabolic window.

Mesh.refine_grading(sigma, K=4) is executed on root grids whose cell widths and slab heights are
symbolic reals (bounded parabolic ratio per root, which bounds the number of sweeps), after a
bounded bisection history.  Every comparison h_t/K >= h_x**sigma of the sweep forks the exploration,
so all orderings of the cell sizes are covered; a feasible path into `assert not elem.children`
(or any other exception) is a candidate violation and is replayed with plain floats."""
import importlib
import time
from fractions import Fraction

import z3

from checks import c02
from vf import meshsym, report
from vf.sym import Engine, Inconclusive, SR, z3bool

LEVEL = 'model_checking'
K = 4
RATIO = 32
RATIO_DIRECTED = 4   # directed histories: the unit cell itself is (nearly) inside the window

# root grids: cell widths are multiples of ONE symbolic width w, slab heights multiples of ONE symbolic
# height tau - the shape of every shipped curve (unit / pi square: equal sides; L-shape: sides 1,1,2,2,1,1;
# circle: four equal arcs) with w and tau arbitrary.  Independent widths are deliberately not used: with
# root widths differing by a factor 32 (Mesh(True, [0,.5,16.5], [0,4])) grading provably cannot terminate
# under the 1-irregularity rule, and such grids are not "reachable from a curve".
GRIDS19 = {
    'sq3g': ((1, 1, 1), (1, ), True),
    'sq4g': ((1, 1, 1, 1), (1, ), True),
    'L4g': ((1, 1, 2, 2), (1, ), True),
    'L3g': ((1, 2, 1), (1, ), True),
    'int2o': ((1, 1), (1, ), False),
    'sq3g2t': ((1, 1, 1), (1, 1), True),
    'L3g2t': ((1, 2, 1), (1, 2), True),
}
QUICK = dict(grids=['sq3g', 'L3g', 'int2o'], hist=1, sigmas=[1, 1.5, 2])
THOROUGH = dict(grids=['sq3g', 'sq4g', 'L3g', 'L4g', 'int2o', 'sq3g2t', 'L3g2t'], hist=2, sigmas=[1, 1.5, 2])


def grade_and_check(eng, mesh, sigma, fail):
    ref_before, _ = meshsym.ref_of(mesh)
    mesh.refine_grading(sigma=sigma, K=K)
    # postconditions
    # the fresh-point tiling query is posed for moderate meshes; beyond that tiling is decided on the reference
    # rectangles (exact integers) together with the ancestry verdict
    big = len(mesh.leaf_elements) > 48
    ref_after, lmap = meshsym.check_state(eng, mesh, fail, linear=True, want_tiling=not big, want_vertices=not big)
    if big and not ref_after.is_tiling():
        fail('tiling:ref', 'Ref rectangles of the leaves do not tile the index cylinder', None)
    claims, seen = [], set()
    for e in mesh.leaf_elements:
        k = (SR.lift(e.h_t).key(), SR.lift(e.h_x).key())
        if k in seen:
            continue
        seen.add(k)
        claims.append(z3.And(z3bool(e.h_t < K * e.h_x**sigma), z3bool(e.h_x**sigma < K * e.h_t)))
    ok, m = eng.prove(z3.And(claims), 'window')
    if not ok:
        fail('window', 'a leaf is outside h_t/K < h_x^sigma < K*h_t after grading', m)
    # only refines: every new rectangle lies inside an old one
    for r in ref_after.leaves:
        if not any(o.j == r.j and o.i == r.i and o.t0 <= r.t0 and r.t1 <= o.t1 and o.x0 <= r.x0 and r.x1 <= o.x1
                   for o in ref_before.leaves):
            fail('coarsened', 'leaf %r after grading is not contained in a leaf of the mesh before' % (r, ), None)


def cumul(mults, unit):
    out = [unit * 0]
    for m in mults:
        out.append(out[-1] + unit * m)
    return out


def run_one(eng, M, gridname, sigma, hist_len, fail, concrete=None):
    sigmas = list(sigma) if isinstance(sigma, (tuple, list)) else [sigma]
    sigma = sigmas[0]
    sm, tm, glued = GRIDS19[gridname]
    n_t, n_x = len(tm), len(sm)
    # order '<...>-v': the deep staircase, explored with w = v*v so that every power of w the code may form is a monomial
    use_v = (isinstance(hist_len, (tuple, list)) and str(hist_len[4]).endswith('-v')) or (
        len(sigmas) > 1 and any(Fraction(sg).denominator == 2 for sg in sigmas))   # two different powers of w in one run
    if concrete:
        w, tau = concrete['w'], concrete['tau']
        xs, ts = cumul(sm, w), cumul(tm, tau)
        mesh = M.Mesh(glue_space=glued, initial_space_mesh=xs, initial_time_mesh=ts)
        mesh._vf = dict(ts=[SR.lift(t) for t in ts], xs=[SR.lift(x) for x in xs], n_t=n_t, n_x=n_x, glued=glued)
    else:
        if use_v:
            # w = v*v: every power w**(n/2) is a monomial in v (non-linear queries; used for the deep staircase only)
            v = eng.real('v')
            eng.assume(v >= Fraction(1, 2))   # w in [1/4, 4]: bounds the sweeps for ANY exponent the code may use
            eng.assume(v <= 2)
            eng.split_const_sqrt = True
            w, tau = v * v, eng.real('tau')
        else:
            w, tau = eng.real('w'), eng.real('tau')
        eng.assume(w > 0)
        eng.assume(tau > 0)
        # bounded parabolic ratio of the unit cell => bounded number of sweeps
        ratio = RATIO_DIRECTED if (isinstance(hist_len, (tuple, list)) or len(sigmas) > 1) else RATIO
        for sg in sigmas:
            if Fraction(sg).denominator == 2 and not use_v:
                # w**(n/2) is a fresh positive atom: no comparison relates it to w other than through h_x**sigma
                pw = eng.real('pw_%d_2' % Fraction(sg).numerator)
                eng.assume(pw > 0)
                eng.register_pow(w, Fraction(sg), pw)
            eng.assume(w**sg * ratio >= tau)
            eng.assume(w**sg <= ratio * tau)
        xs, ts = cumul(sm, w), cumul(tm, tau)
        xs[0], ts[0] = SR.const(0), SR.const(0)
        mesh = M.Mesh(glue_space=glued, initial_space_mesh=xs, initial_time_mesh=ts)
        mesh._vf = dict(ts=ts, xs=xs, n_t=n_t, n_x=n_x, glued=glued)
    hist = []
    if isinstance(hist_len, (tuple, list)):
        # point-directed history (what adaptive refinement towards a singular corner produces): ks space bisections
        # and kt time bisections of the leaf that contains a point just inside a corner of a root cell
        _, corner, ks, kt, order = hist_len
        order = order[:-2] if order.endswith('-v') else order
        hist = ['directed', corner, ks, kt, hist_len[4]]
        from fractions import Fraction as F
        eps = F(1, 2**30)
        root_j, root_i, top, right = corner
        pt = (root_j + (1 - eps if top else eps), root_i + (1 - eps if right else eps))

        def leaf_at():
            for e in mesh.leaf_elements:
                r = meshsym.rect_of(mesh, e)
                S = 2**40
                if r.t0 <= pt[0] * S < r.t1 and r.x0 <= pt[1] * S < r.x1:
                    return e
            raise AssertionError('no leaf at the corner point')
        seq = [1] * ks + [0] * kt if order == 'space-first' else ([0] * kt + [1] * ks if order == 'time-first' else
                                                                  [v for pair in zip([1] * max(ks, kt), [0] * max(ks, kt))
                                                                   for v in pair][:ks + kt])
        for ax in seq:
            mesh.refine_axis(leaf_at(), ax)
        hist_len = 0
    for step in range(hist_len):
        leaves = list(mesh.leaf_elements)
        acts = [(i, op) for i in range(len(leaves)) for op in (0, 1)] + [(-1, 9)]
        act = tuple(concrete['actions'][step]) if concrete else acts[eng.choice(len(acts))]
        hist.append(list(act))
        if act[1] == 9:
            continue  # no-op: shorter history
        c02.apply_action(mesh, leaves, act)
    for sigma in sigmas:   # a second grading with another exponent runs on the SAME mesh object (state must not leak)
        grade_and_check(eng, mesh, sigma, fail)
    return hist, len(mesh.leaf_elements)


def replay(rp):
    M = c02.load_mesh_module()
    vals = rp.get('values') or {}
    try:
        w, tau = float(Fraction(vals.get('w', '1'))), float(Fraction(vals['tau']))
        sg0 = rp['sigma'][0] if isinstance(rp['sigma'], (list, tuple)) else rp['sigma']
        if 'v' in vals:
            w = float(Fraction(vals['v']))**2
        elif Fraction(sg0).denominator == 2:
            # the model fixes w**sigma (atom pw_n_2), not w
            w = float(Fraction(vals['pw_%d_2' % Fraction(sg0).numerator]))**(1 / float(sg0))
    except Exception:
        return False
    if not (w > 0 and tau > 0):
        return False
    found = []

    def fail(sig, what, model):
        found.append(sig)

    with Engine(timeout_ms=30000) as eng:
        try:
            hl = tuple(rp['actions']) if rp['actions'] and rp['actions'][0] == 'directed' else len(rp['actions'])
            if isinstance(hl, tuple):
                hl = (hl[0], tuple(hl[1]), hl[2], hl[3], hl[4])
            run_one(eng, M, rp['grid'], rp['sigma'], hl, fail, concrete=dict(w=w, tau=tau, actions=rp['actions']))
        except Exception as e:
            found.append('exception:' + type(e).__name__)
    return bool(found)


def worker(case):
    gridname, sigma, hist_len, prefix, seed = case
    M = c02.load_mesh_module()
    eng = Engine(timeout_ms=60000, seed=seed, max_decisions=6000)
    res = dict(stats=None, violations=[], inconclusive=[], samples=[], functions=[], evaluations=0, nontrivial=0,
               part_extra=dict(states=0, transitions=0))
    cands = []

    def fail(sig, what, model):
        cands.append((sig, what, model))

    def body():
        cands.clear()
        return run_one(eng, M, gridname, sigma, hist_len, fail)

    try:
        for pr in eng.explore(body, prefix=list(prefix) if prefix else None):
            res['evaluations'] += 1
            if pr.status == 'exc':
                f = pr.tb[-1]
                cands.append(('exception:%s@%s:%d' % (type(pr.exc).__name__, f.filename.split('/')[-1], f.lineno),
                              '%s at %s:%d (%s)' % (type(pr.exc).__name__, f.filename, f.lineno, f.line), 'path'))
            elif pr.status == 'ok':
                hist, nleaf = pr.value
                res['part_extra']['states'] += 1
                res['part_extra']['transitions'] += (hist_len if isinstance(hist_len, int) else hist_len[2] + hist_len[3]) + 1
                res['nontrivial'] += 1
                if len(res['samples']) < 1:
                    _, m = eng.feasible(True)
                    ex = {k: str(v) for k, v in eng.model_inputs(m).items() if not k.endswith('!')}
                    pk = [k for k in ex if k.startswith('pw_')]
                    if pk:   # the model fixes w**sigma (the registered power), w itself is its root
                        ex['w'] = '(%s)**(1/sigma)' % pk[0]
                    res['samples'].append(dict(grid=gridname, sigma=sigma, history=hist, leaves_after=nleaf,
                                               example_grid=ex))
            for sig, what, model in cands:
                acts = (list(hist_len) if isinstance(hist_len, (tuple, list)) else
                        choices_to_actions(M, gridname, pr.choices, hist_len))
                tried = []
                ok = False
                models = []
                if model == 'path' or model is None:
                    models.append(eng.dyadic_model(True, bits=10))
                    _, m0 = eng.feasible(True)
                    models.append(m0)
                else:
                    models.append(model)
                for m in models:
                    if m is None:
                        continue
                    vals = {k: str(v) for k, v in eng.model_inputs(m).items() if v is not None}
                    rp = dict(grid=gridname, sigma=sigma, actions=acts, values=vals)
                    tried.append(rp)
                    if replay(rp):
                        ok = True
                        break
                rp = tried[-1] if tried else dict(grid=gridname, sigma=sigma, actions=acts, values=None)
                res['violations'].append(dict(signature='grading:%s' % sig,
                                              what='%s [grid %s sigma %s history %s values %s]' %
                                              (what, gridname, sigma, acts, rp.get('values')), replay=rp,
                                              reproduced=ok))
            cands.clear()
            if len(res['violations']) >= 3:
                break
    except Inconclusive as e:
        res['inconclusive'].append('grading grid %s sigma %s hist %s prefix %s: %s' % (gridname, sigma, hist_len,
                                                                                       prefix, e))
    res['stats'] = eng.stats
    return res


def choices_to_actions(M, gridname, choices, hist_len):
    sm, tm, glued = GRIDS19[gridname]
    mesh = M.Mesh(glue_space=glued, initial_space_mesh=cumul(sm, 1.0), initial_time_mesh=cumul(tm, 1.0))
    acts = []
    for step in range(hist_len):
        leaves = list(mesh.leaf_elements)
        al = [(i, op) for i in range(len(leaves)) for op in (0, 1)] + [(-1, 9)]
        if step >= len(choices):
            break
        a = al[choices[step]]
        acts.append(list(a))
        if a[1] != 9:
            c02.apply_action(mesh, leaves, a)
    return acts


def run(out):
    cfg = QUICK if out.tier == 'quick' else THOROUGH
    cases = []
    for g in cfg['grids']:
        sm, tm, glued = GRIDS19[g]
        n_first = 2 * len(sm) * len(tm) + 1
        for sigma in cfg['sigmas']:
            if cfg['hist'] >= 1:
                for c in range(n_first):
                    cases.append((g, sigma, cfg['hist'], (c, ), out.seed))
            else:
                cases.append((g, sigma, 0, (), out.seed))
    # two gradings with different exponents on one mesh object
    for g in (['sq3g', 'L3g'] if out.tier == 'quick' else ['sq3g', 'L3g', 'L4g', 'int2o', 'sq3g2t']):
        for pair in ((2, 1), (1, 2), (1.5, 2), (1, 1.5)):
            cases.append((g, pair, 0, (), out.seed))
    # point-directed histories on the single-slab grids
    quick = out.tier == 'quick'
    dgrids = ['sq3g', 'L3g'] if quick else ['sq3g', 'L3g', 'L4g', 'int2o']
    depth = [(4, 6)] if quick else [(0, 3), (0, 6), (2, 0), (2, 3), (2, 6), (4, 0), (4, 3), (4, 6), (3, 5), (1, 4)]
    for g in dgrids:
        sm, tm, glued = GRIDS19[g]
        corners = [(0, i, top, right) for i in range(len(sm)) for top in (0, 1) for right in (0, 1)]
        if quick:
            corners = [c for c in corners if c[2] == 0]
        for sigma in cfg['sigmas']:
            for corner in corners:
                for (ks, kt) in depth:
                    for order in (('space-first', ) if quick else ('space-first', 'time-first', 'alternate')):
                        cases.append((g, sigma, ('directed', corner, ks, kt, order), (), out.seed))
    # the deep isotropic staircase (8 + 8 bisections towards a point of t = 0): the shallowest mesh on which, for
    # sigma = 3/2, the closure of a time refinement bisects an element queued for space refinement
    for g, corner in ((('sq3g', (0, 1, 0, 0)), ) if quick else (('sq3g', (0, 1, 0, 0)), ('L3g', (0, 1, 0, 0)), ('sq3g', (0, 0, 0, 1)))):
        cases.append((g, 1.5, ('directed', corner, 8, 8, 'alternate-v'), (), out.seed))
    results = report.pmap('checks.c19', 'worker', cases)
    for c, r in zip(cases, results):
        report.merge_worker(out, r, part='%s sigma=%s%s' % (c[0], c[1], '' if isinstance(c[2], int) else ' directed'))
    out.bounds = dict(grids={g: dict(space_cells_in_units_of_w=GRIDS19[g][0], slabs_in_units_of_tau=GRIDS19[g][1],
                                     glued=GRIDS19[g][2]) for g in cfg['grids']}, history_before_grading=cfg['hist'],
                      directed_histories='ks <= 4 space and kt <= 6 time bisections of the leaf at a corner point of a root cell (%s); plus the isotropic staircase 8 + 8 for sigma = 3/2 with w = v^2, 1/2 <= v <= 2' % ('(4,6), space first, corners at t = 0' if quick else 'ten (ks,kt) combinations, three orders, all corners'), sigma=cfg['sigmas'], K=K,
                      root_ratio='w, tau symbolic with 1/%d <= w^sigma/tau <= %d (bounds the sweeps); 1/%d .. %d for the directed histories' % (RATIO, RATIO, RATIO_DIRECTED, RATIO_DIRECTED),
                      decisions_per_path=6000)
    out.outside = ['exponents other than 1, 3/2, 2', 'unit-cell ratios beyond the stated window',
                   'root grids whose cell widths are not in the ratios of a shipped curve (1:1 and 1:2)', 'longer histories',
                   'floating-point rounding']
    out.assumptions = ['real arithmetic', 'sigma = 3/2: w**(3/2) is a fresh positive atom (no comparison in the code relates it to w itself), (c*w)**(3/2) = c**(3/2) * atom with sqrt(2) an exact algebraic constant', 'Ref for the invariants (as C02)', 'print replaced by a no-op']
    states = sum(p.get('states', 0) for p in out.parts.values())
    out.coverage['states'] = states
    out.coverage['transitions'] = sum(p.get('transitions', 0) for p in out.parts.values())
    out.coverage['traces_validated_against_impl'] = states
    out.coverage['exhaustive'] = not out.inconclusive
    out.coverage['rule'] = ('every history shape of the stated length x every feasible outcome pattern of the size '
                            'comparisons in the grading sweeps (cell sizes symbolic)')
    out.functions.update(['src/mesh.py:Mesh.refine_grading', 'src/mesh.py:Mesh.refine_axis',
                          'src/mesh.py:Element.__init__', 'src/mesh.py:Edge.neighbour_elements'])
