"""C04: causality (exact zeros) and sign of the single-layer operator, row/column convention.

 V1 guards   bilform, MP_SL_matrix_col, potential, evaluate, evaluate_exact, ErrorEstimator.residual executed with
             symbolic time intervals [a,b] (test / observation) and [c,d] (trial) resp. a symbolic time t, on
             concrete space geometry: on every path z3 decides "observation ends no later than trial begins"
             <=> the result is the literal 0 (bilform, potential, evaluate, evaluate_exact) resp. the entry /
             contribution is skipped exactly then (column worker, residual).
 V2 sign     the time kernel the code builds equals Fm(b-d) - Fm(b-c) + Fm(a-c) - Fm(a-d) (decided in C01 P5 and
             re-decided here) and is >= 0 under the concavity axiom for F_q extended by 0, instantiated at the four
             arguments; the weights of the schemes in use are positive (ground facts).
 V3 convention  bilform_matrix (inline path, serial path, column worker through an in-order stand-in for the pool)
             returns mat[i][j] = bilform(trial_j, test_i) with __integrate replaced by an uninterpreted function."""
import importlib
from fractions import Fraction

import numpy as np
import z3

from checks import c01
from vf import models, report, slsym
from vf.sym import Engine, Inconclusive, PathAbort, SR, z3bool, z3real

LEVEL = 'other'


def make_op(SL, gamma, quad_order=1, pw_exact=False):
    op = SL.SingleLayerOperator(slsym.FakeMesh(gamma), quad_order=quad_order, pw_exact=pw_exact)
    return op


def is_literal_zero(v):
    return (isinstance(v, (int, float)) and not isinstance(v, bool) and v == 0) or \
        (isinstance(v, SR) and not v.p)


# -- V1 ---------------------------------------------------------------------------------------------------
def guards_worker(case):
    curve, which = case
    SL, SLE, Q = slsym.load_sl()
    EE = importlib.import_module('src.error_estimator')
    EE.print = models.noprint
    EE.np = models.NpProxy(dict(zeros=models.zeros_model))
    gamma = slsym.curve_pieces(curve)
    cells = slsym.space_leaves(gamma, 2)
    eng = Engine(timeout_ms=30000)
    res = dict(stats=None, violations=[], inconclusive=[], samples=[], functions=[], evaluations=0, nontrivial=0)
    fn_names = dict(bilform='src/single_layer.py:SingleLayerOperator.bilform', col='src/single_layer.py:MP_SL_matrix_col',
                    potential='src/single_layer.py:SingleLayerOperator.potential',
                    evaluate='src/single_layer.py:SingleLayerOperator.evaluate',
                    evaluate_exact='src/single_layer.py:SingleLayerOperator.evaluate_exact',
                    residual='src/error_estimator.py:ErrorEstimator.residual')
    res['functions'] = [fn_names[which]]
    # space pairs: same cell, neighbour, far (concrete); time symbolic
    npairs = [(0, 0), (0, 1), (1, 0), (0, len(cells) - 1), (len(cells) - 1, 0), (0, len(cells) // 2), (1, 2), (2, 1)]
    npairs = sorted(set(npairs))

    cur = dict(i_test=0, i_trial=0)

    def violation(sig, what, vals):
        rp = dict(kind='guard', curve=curve, which=which, i_test=cur['i_test'], i_trial=cur['i_trial'],
                  values={k: str(v) for k, v in vals.items() if v is not None})
        res['violations'].append(dict(signature='guard:%s:%s' % (which, sig), what='%s [%s on %s, %s]' %
                                      (what, which, curve, rp['values']), replay=rp, reproduced=replay(rp)))

    for (i_test, i_trial) in npairs:
        if which in ('potential', 'evaluate', 'evaluate_exact', 'residual') and i_test != 0:
            continue
        cur['i_test'], cur['i_trial'] = i_test, i_trial

        def body():
            a, b, c, d = eng.reals('a b c d')
            eng.assume(a < b)
            eng.assume(c < d)
            xt = cells[i_trial]
            trial = slsym.Elem(c, d, xt[0], xt[1], xt[2], 'trial')
            # both evaluation paths: the closed-form path (real closed forms) on same-side pairs of polygons
            same_side = curve != 'Circle' and i_test // 2 == i_trial // 2
            pw_exact = which == 'bilform' and same_side
            op = make_op(SL, gamma, 1, pw_exact=pw_exact)
            op._init_elems([trial])
            calls = []
            if which in ('bilform', 'col'):
                xs = cells[i_test]
                test = slsym.Elem(a, b, xs[0], xs[1], xs[2], 'test')
                # the value of the space integration is irrelevant for the guard: uninterpreted
                setattr(op, '_SingleLayerOperator__integrate',
                        lambda f, p, q, r, s: (calls.append(1), eng.apply('I', SR.lift(p), SR.lift(r)))[1])
                if which == 'bilform':
                    val = op.bilform(trial, test)
                    acausal = z3bool(b <= c)
                    return acausal, is_literal_zero(val), bool(calls)
                SL.__dict__['__SL'] = op
                SL.__dict__['__elems_test'] = [test]
                SL.__dict__['__elems_trial'] = [trial]
                col = SL.MP_SL_matrix_col(0)
                direct = op.bilform(trial, test)
                # the worker's skip must leave exactly what bilform would return
                same = SR.lift(col[0]) == SR.lift(direct)
                return z3bool(b <= c), is_literal_zero(col[0]), same
            t = a  # observation time: the symbolic instant a
            if which == 'potential':
                x = np.array([[SR.const(Fraction(1, 3))], [SR.const(Fraction(1, 5))]], dtype=object)
                op.gauss_scheme = type('S', (), dict(integrate=staticmethod(
                    lambda f, p, q: (calls.append(1), eng.apply('P', SR.lift(p)))[1])))()
                val = op.potential(trial, t, x)
                return z3bool(t <= c), is_literal_zero(val), bool(calls)
            x_hat = SR.const(cells[i_test][0]) + (SR.const(cells[i_test][1]) - SR.const(cells[i_test][0])) * Fraction(1, 3)
            if which == 'evaluate':
                x = gamma.eval(float(x_hat.const_value()))
                val = op.evaluate(trial, t, float(x_hat.const_value()), slsym.exact_array(x))
                return z3bool(t <= c), is_literal_zero(val), True
            if which == 'evaluate_exact':
                val = op.evaluate_exact(trial, t, x_hat)
                return z3bool(t <= c), is_literal_zero(val), True
            if which == 'residual':
                # residual: contribution of a trial element is skipped iff t <= start of the trial element
                est = EE.ErrorEstimator.__new__(EE.ErrorEstimator)
                seen = []
                fake = type('FSL', (), dict(_init_elems=lambda self, e: None,
                                            evaluate=lambda self, el, tt, xh, xx: (seen.append(1), SR.const(1))[1],
                                            evaluate_exact=lambda self, el, tt, xh: (seen.append(1), SR.const(1))[1]))()
                r = est.residual([trial], [SR.const(1)], fake)
                out = r(np.array([t], dtype=object), np.array([float(x_hat.const_value())]), cells[i_test][2])
                return z3bool(t <= c), is_literal_zero(out[0]), bool(seen)
        try:
            for pr in eng.explore(body):
                res['evaluations'] += 1
                if pr.status == 'exc':
                    _, m = eng.feasible(True)
                    violation('exception', '%r at %s' % (pr.exc, pr.tb[-1]), eng.model_inputs(m))
                    continue
                acausal, zero, extra = pr.value
                res['nontrivial'] += 1
                # acausal => literal zero; causal => not the guard's zero
                if zero:
                    ok, m = eng.prove(acausal, 'zero-only-when-acausal')
                    if not ok:
                        violation('zero-when-causal', 'returns exactly 0 although the observation interval ends after the '
                                  'trial element begins', eng.model_inputs(m))
                else:
                    ok, m = eng.prove(z3.Not(acausal), 'acausal-implies-zero')
                    if not ok:
                        violation('nonzero-when-acausal', 'returns a non-zero term although the observation ends no later '
                                  'than the trial element begins', eng.model_inputs(m))
                if which == 'col' and extra is not True:
                    ok, m = (True, None) if extra is True else eng.prove(z3bool(extra), 'worker=bilform')
                    if not ok:
                        violation('worker-differs', 'the column worker\'s entry differs from bilform(trial, test)',
                                  eng.model_inputs(m))
                if len(res['samples']) < 2:
                    _, m = eng.feasible(True)
                    res['samples'].append(dict(which=which, curve=curve, cells=[i_test, i_trial],
                                               times={k: str(v) for k, v in eng.model_inputs(m).items()},
                                               literal_zero=bool(zero)))
        except Inconclusive as e:
            res['inconclusive'].append('guards %s %s: %s' % (which, curve, e))
    res['stats'] = eng.stats
    return res


def replay(rp):
    """Concrete re-run on the unmodified modules with plain floats."""
    import math
    import scipy.special as sp
    if rp['kind'] == 'guard':
        SL = importlib.import_module('src.single_layer')
        vals = {k: float(Fraction(v)) for k, v in rp['values'].items() if k in 'abcd'}
        if len(vals) < 4:
            return True
        a, b, c, d = (vals[k] for k in 'abcd')
        if not (a < b and c < d):
            return False
        gamma = slsym.curve_pieces(rp['curve'])
        cells = slsym.space_leaves(gamma, 2)
        it, ir = rp.get('i_test', 0), rp.get('i_trial', 1)
        same_side = rp['curve'] != 'Circle' and it // 2 == ir // 2
        with slsym.unpatched():
            trial = slsym.Elem(c, d, cells[ir][0], cells[ir][1], cells[ir][2])
            test = slsym.Elem(a, b, cells[it][0], cells[it][1], cells[it][2])
            op = SL.SingleLayerOperator(slsym.FakeMesh(gamma), quad_order=4,
                                        pw_exact=(rp['which'] == 'bilform' and same_side))
            op._init_elems([trial])
            which = rp['which']
            try:
                if which == 'bilform':
                    v = op.bilform(trial, test)
                    return (b <= c) != (isinstance(v, (int, float)) and not isinstance(v, bool) and v == 0)
                if which == 'col':
                    SL.__dict__['__SL'] = op
                    SL.__dict__['__elems_test'] = [test]
                    SL.__dict__['__elems_trial'] = [trial]
                    col = SL.MP_SL_matrix_col(0)
                    return float(col[0]) != float(op.bilform(trial, test))
                t = a
                if which == 'potential':
                    v = op.potential(trial, t, np.array([[1 / 3], [1 / 5]]))
                elif which == 'evaluate':
                    xh = cells[it][0] + (cells[it][1] - cells[it][0]) / 3
                    v = op.evaluate(trial, t, xh, gamma.eval(xh))
                elif which == 'evaluate_exact':
                    xh = cells[it][0] + (cells[it][1] - cells[it][0]) / 3
                    v = op.evaluate_exact(trial, t, xh)
                else:
                    return True
                return (t <= c) != (isinstance(v, (int, float)) and not isinstance(v, bool) and v == 0)
            except Exception:
                return True
    if rp['kind'] == 'timekernel':
        return c01.replay(rp)
    return True


# -- V2 sign ----------------------------------------------------------------------------------------------
def sign_worker(_):
    SL, SLE, Q = slsym.load_sl()
    eng = Engine(timeout_ms=30000)
    res = dict(stats=None, violations=[], inconclusive=[], samples=[], functions=[
        'src/single_layer.py:double_time_integrated_kernel', 'src/single_layer.py:time_integrated_kernel',
        'src/single_layer.py:g'], evaluations=0, nontrivial=0)

    def body():
        a, b, c, d, s = eng.reals('a b c d s')
        eng.assume(a < b)
        eng.assume(c < d)
        eng.assume(s > 0)
        G = SL.double_time_integrated_kernel(a, b, c, d)
        val = G(np.array([[2 * s]], dtype=object))
        val = SR.lift(val[0] if isinstance(val, np.ndarray) else val)
        q = s * s
        FPI = SR.const(SL.FPI_INV)
        zs = [b - d, b - c, a - c, a - d]
        Fm = []
        for z in zs:
            Fm.append(c01.F_spec(eng, q, z) if z > 0 else SR.const(0))
        spec = FPI * (Fm[0] - Fm[1] + Fm[2] - Fm[3])
        ok1, m1 = eng.prove_identity(val, spec, 'kernel=spec')
        # concavity of z -> F_q(z) (extended by 0 on z <= 0), instantiated: the inner pair (b-d, a-c) lies between
        # the outer pair (a-d, b-c) and has the same sum, hence Fm(b-d) + Fm(a-c) >= Fm(a-d) + Fm(b-c)
        axiom = z3bool(Fm[0] + Fm[2] >= Fm[3] + Fm[1])
        ok2, m2 = eng.prove(z3.Implies(axiom, z3bool(val >= 0)), 'sign')
        return ok1, ok2
    try:
        for pr in eng.explore(body):
            res['evaluations'] += 1
            res['nontrivial'] += 1
            if pr.status == 'exc':
                res['inconclusive'].append('sign harness: %r' % (pr.exc, ))
                continue
            ok1, ok2 = pr.value
            if not (ok1 and ok2):
                m = eng.dyadic_model(eng.real('s') >= Fraction(1, 2), bits=3) or eng.feasible(True)[1]
                vals = {k: str(v) for k, v in eng.model_inputs(m).items() if k in 'abcds' and v is not None}
                rp = dict(kind='timekernel', values=vals)
                res['violations'].append(dict(
                    signature='sign:%s' % ('kernel' if not ok1 else 'negative'),
                    what='time kernel %s [%s]' % ('differs from the four-term formula' if not ok1 else
                                                  'can be negative under the concavity axiom', vals),
                    replay=rp, reproduced=c01.replay(rp)))
            elif len(res['samples']) < 2:
                m = eng.feasible(True)[1]
                res['samples'].append(dict(time_order={k: str(v) for k, v in eng.model_inputs(m).items() if k in 'abcd'}))
        # positivity of the weights of the schemes in use (ground)
        for order in (1, 4, 12):
            class Gm:
                gamma_length = 4.0
                closed = True
            op = SL.SingleLayerOperator(slsym.FakeMesh(Gm()), quad_order=order)
            for nm in ('log_scheme', 'log_log', 'duff_log_log', 'gauss_scheme'):
                w = getattr(op, nm).weights
                ok, _ = eng.prove(z3.And([z3bool(SR.const(float(x)) > 0) for x in np.asarray(w).flat]), 'weights>0')
                res['evaluations'] += 1
                if not ok:
                    rp = dict(kind='weights', scheme=nm, order=order)
                    res['violations'].append(dict(signature='sign:weights:%s' % nm, what='scheme %s (order %d) has a '
                                                  'non-positive weight' % (nm, order), replay=rp, reproduced=True))
    except Inconclusive as e:
        res['inconclusive'].append('sign: %s' % e)
    res['stats'] = eng.stats
    return res


# -- V3 convention ----------------------------------------------------------------------------------------
class FakePool:
    def __init__(self, *a, **k):
        pass

    def imap(self, f, it, chunksize=1):
        return [f(i) for i in it]

    def map(self, f, it, chunksize=1):
        return [f(i) for i in it]

    def __enter__(self):
        return self

    def __exit__(self, *a):
        pass

    def close(self):
        pass

    def terminate(self):
        pass

    def join(self):
        pass


def convention_worker(case):
    n_test, n_trial, path = case
    SL, SLE, Q = slsym.load_sl()
    SL.mp = type('MP', (), dict(Pool=FakePool, cpu_count=staticmethod(lambda: 4)))()
    gamma = slsym.curve_pieces('UnitSquare')
    cells = slsym.space_leaves(gamma, 4)  # 16 space cells
    eng = Engine(timeout_ms=30000)
    res = dict(stats=None, violations=[], inconclusive=[], samples=[], functions=[
        'src/single_layer.py:SingleLayerOperator.bilform_matrix', 'src/single_layer.py:MP_SL_matrix_col',
        'src/single_layer.py:SingleLayerOperator.bilform'], evaluations=0, nontrivial=0)

    def body():
        # two slabs with a symbolic interface tm and a late sub-slab: elements of three time kinds
        t0, tm, t1 = SR.const(0), eng.real('tm'), SR.const(1)
        eng.assume(tm > 0)
        eng.assume(tm < 1)
        slabs = [(t0, tm), (tm, t1), (t0, t1)]
        op = make_op(SL, gamma, 1)

        def fake_integrate(f, p, q, r, s):
            probe = np.array([[p + (q - p) * Fraction(1, 3)], [r + (s - r) * Fraction(2, 3)]], dtype=object)
            fv = f(probe)
            fv = fv[0] if isinstance(fv, np.ndarray) else fv
            return eng.apply('I', SR.lift(p), SR.lift(q), SR.lift(r), SR.lift(s), SR.lift(fv))
        setattr(op, '_SingleLayerOperator__integrate', fake_integrate)
        tests = [slsym.Elem(*slabs[k % 3], cells[(3 * k) % 16][0], cells[(3 * k) % 16][1], cells[(3 * k) % 16][2])
                 for k in range(n_test)]
        trials = [slsym.Elem(*slabs[(k + 1) % 3], cells[(5 * k + 1) % 16][0], cells[(5 * k + 1) % 16][1],
                             cells[(5 * k + 1) % 16][2]) for k in range(n_trial)]
        mat = op.bilform_matrix(tests, trials, use_mp=(path == 'pool'))
        bad = []
        for i, te in enumerate(tests):
            for j, tr in enumerate(trials):
                want = op.bilform(tr, te)
                if not (is_literal_zero(mat[i, j]) and is_literal_zero(want)):
                    ok, m = eng.prove_identity(mat[i, j], want, 'mat[i,j]=bilform(trial_j,test_i)')
                    if not ok:
                        bad.append((i, j))
        return mat.shape, bad
    try:
        for pr in eng.explore(body):
            res['evaluations'] += 1
            if pr.status == 'exc':
                rp = dict(kind='convention', n_test=n_test, n_trial=n_trial, path=path)
                res['violations'].append(dict(signature='convention:exception:%s' % path, what='bilform_matrix raised %r '
                                              'at %s' % (pr.exc, pr.tb[-1]), replay=rp, reproduced=True))
                continue
            shape, bad = pr.value
            res['nontrivial'] += 1
            if tuple(shape) != (n_test, n_trial) or bad:
                rp = dict(kind='convention', n_test=n_test, n_trial=n_trial, path=path)
                res['violations'].append(dict(
                    signature='convention:%s' % path, what='bilform_matrix (%s path, %d test x %d trial elements): entry %s '
                    'is not bilform(trial_j, test_i) (rows must be test, columns trial)' %
                    (path, n_test, n_trial, bad[:3] if bad else 'shape %r' % (shape, )), replay=rp,
                    reproduced=convention_concrete(rp)))
            elif len(res['samples']) < 1:
                res['samples'].append(dict(path=path, shape=list(shape)))
    except Inconclusive as e:
        res['inconclusive'].append('convention %r: %s' % (case, e))
    res['stats'] = eng.stats
    return res


def convention_concrete(rp):
    """Plain-float replay on the unmodified module (pool replaced by the in-order stand-in only)."""
    SL = importlib.import_module('src.single_layer')
    gamma = slsym.curve_pieces('UnitSquare')
    cells = slsym.space_leaves(gamma, 4)
    n_test, n_trial, path = rp['n_test'], rp['n_trial'], rp['path']
    with slsym.unpatched():
        saved_mp = SL.mp
        SL.mp = type('MP', (), dict(Pool=FakePool, cpu_count=staticmethod(lambda: 4)))()
        try:
            op = SL.SingleLayerOperator(slsym.FakeMesh(gamma), quad_order=2)
            slabs = [(0.0, 0.375), (0.375, 1.0), (0.0, 1.0)]
            tests = [slsym.Elem(*slabs[k % 3], *cells[(3 * k) % 16]) for k in range(n_test)]
            trials = [slsym.Elem(*slabs[(k + 1) % 3], *cells[(5 * k + 1) % 16]) for k in range(n_trial)]
            mat = op.bilform_matrix(tests, trials, use_mp=(path == 'pool'))
            for i, te in enumerate(tests):
                for j, tr in enumerate(trials):
                    if float(mat[i, j]) != float(op.bilform(tr, te)):
                        return True
            return tuple(mat.shape) != (n_test, n_trial)
        except Exception:
            return True
        finally:
            SL.mp = saved_mp


def run(out):
    quick = out.tier == 'quick'
    curves = ['UnitSquare', 'Circle'] if quick else ['UnitSquare', 'LShape', 'Circle', 'PiSquare']
    cases = [(c, w) for c in curves for w in ('bilform', 'col', 'potential', 'evaluate', 'evaluate_exact', 'residual')
             if not (w == 'evaluate_exact' and c == 'Circle')]
    for c, r in zip(cases, report.pmap('checks.c04', 'guards_worker', cases)):
        report.merge_worker(out, r, part='V1 guards ' + c[1])
    for r in report.pmap('checks.c04', 'sign_worker', [0]):
        report.merge_worker(out, r, part='V2 sign')
    conv = [(3, 4, 'inline'), (9, 9, 'inline'), (5, 7, 'inline'), (10, 10, 'serial'), (12, 9, 'serial'),
            (10, 10, 'pool'), (9, 12, 'pool')]
    if not quick:
        conv += [(2, 3, 'inline'), (1, 5, 'inline'), (20, 5, 'serial'), (5, 20, 'pool'), (11, 11, 'pool')]
    for c, r in zip(conv, report.pmap('checks.c04', 'convention_worker', conv)):
        report.merge_worker(out, r, part='V3 convention ' + c[2])
    out.bounds = dict(curves=curves, time='symbolic reals a<b, c<d (all order relations incl. equalities)',
                      space='concrete cells of the initial mesh of the curve (same, neighbour, far, seam)',
                      matrix_sizes=[list(c) for c in conv])
    out.outside = ['strict positivity above the underflow range', 'sign of the space quadrature beyond "positive weights '
                   'times non-negative kernel"', 'real process pools (C17)', 'rounding']
    out.assumptions = ['exp/Ei/erf uninterpreted', 'concavity of F_q(z) = z exp(-q/z) + (q+z) Ei(-q/z) extended by 0 (F\'\' = '
                       '-G <= 0): trusted mathematics, instantiated at the four time differences',
                       'space integration replaced by an uninterpreted function in V1/V3',
                       'mp.Pool replaced by an in-order map in the calling process (V3 pool path)']
    out.coverage['exhaustive'] = not out.inconclusive
    out.coverage['rule'] = 'per function and curve: all time orderings as paths; per matrix size and assembly path one exploration'
