"""C16: domain quadtree - tiling, 2:1 balance, unique vertices, boundary-segment targeting.

(a) InitialMesh built through the real constructor on a square / L-shape of *symbolic* unit s > 0, then every
    refine history of bounded length (leaf chosen by `choice`); z3 decides per path: every leaf is an axis
    parallel square, a fresh point of the domain lies in exactly one (half-open) leaf, vertices pairwise
    distinct; 2:1 balance is decided on the dyadic index rectangles read off the parent chain.
(b) refine_msh_bdr / vertex_from_coords on the three shipped factories with a *symbolic dyadic segment*
    [k/2^l, (k+1)/2^l] (k a symbolic integer) of every unit side piece, both orientations, end points passed as
    tuple, list or 2x1 array: terminates, returns a leaf having precisely that edge, no other leaf has it,
    both end points are found by vertex_from_coords; afterwards the invariants of (a)."""
import importlib
from fractions import Fraction

import numpy as np
import z3

from vf import models, report
from vf.sym import Engine, Inconclusive, SR, z3bool, z3real

LEVEL = 'model_checking'
PERTURBED_LEVELS = (1, 3, 6)   # segment levels at which the end points carry the rounding perturbation


def load():
    IM = importlib.import_module('src.initial_mesh')
    IM.isclose = models.isclose_model
    IM.float = models.float_model
    # deterministic iteration order of the leaf set (replay needs it): hash by vertex indices
    IM.Element.__hash__ = lambda self: hash(tuple(v.idx for v in self.vertices))
    return IM


def leaves_sorted(mesh):
    return sorted(mesh.leaf_elements, key=lambda e: tuple(v.idx for v in e.vertices))


def quad_of(mesh, elem, roots):
    """(root index, level, i, j) from the parent chain; children are created in the order
    (0,0), (1,0), (1,1), (0,1) of the quadrants."""
    chain = []
    e = elem
    while e.parent is not None:
        p = e.parent
        sibs = [c for c in mesh.elements if c.parent is p]
        k = [i for i, c in enumerate(sibs) if c is e][0]
        chain.append(k)
        e = p
    r = roots.index(e)
    i = j = 0
    for k in reversed(chain):
        di, dj = [(0, 0), (1, 0), (1, 1), (0, 1)][k]
        i, j = 2 * i + di, 2 * j + dj
    return r, len(chain), i, j


def check_quadtree(eng, mesh, roots, root_boxes, fail, exact=True):
    """root_boxes: per root (x0, y0, x1, y1) in physical coordinates (possibly symbolic)."""
    leaves = leaves_sorted(mesh)
    # squares, consistent with the parent chain
    boxes = {}
    for e in leaves:
        v = e.vertices
        x0, y0, x1, y1 = v[0].x, v[0].y, v[2].x, v[2].y
        r, lvl, i, j = quad_of(mesh, e, roots)
        if lvl != e.level:
            fail('level', 'level of %r disagrees with its parent chain' % (e, ), None)
        rx0, ry0, rx1, ry1 = root_boxes[r]
        h = (SR.lift(rx1) - rx0) * Fraction(1, 2**lvl)
        hy = (SR.lift(ry1) - ry0) * Fraction(1, 2**lvl)
        if exact:
            cs = [x0 == rx0 + h * i, x1 == rx0 + h * (i + 1), y0 == ry0 + hy * j, y1 == ry0 + hy * (j + 1),
                  v[1].x == x1, v[1].y == y0, v[3].x == x0, v[3].y == y1, (SR.lift(x1) - x0) == (SR.lift(y1) - y0)]
        else:
            # concrete double coordinates (the shipped factories): midpoints are rounded, compare to 1e-9
            cs = [eng_close(x0, rx0 + h * i), eng_close(x1, rx0 + h * (i + 1)), eng_close(y0, ry0 + hy * j),
                  eng_close(y1, ry0 + hy * (j + 1)), v[1].x == x1, v[1].y == y0, v[3].x == x0, v[3].y == y1,
                  eng_close(SR.lift(x1) - x0, SR.lift(y1) - y0)]
        if not all(c is True for c in cs):
            ok, m = eng.prove(z3.And([z3bool(c) for c in cs]), 'square')
            if not ok:
                fail('square', 'leaf %r is not the axis-parallel dyadic square its parent chain says' % (e, ), m)
        boxes[e] = (r, lvl, i, j)
    # tiling: fresh point of the domain lies in exactly one half-open leaf
    px, py = eng.real('px!'), eng.real('py!')
    dom = z3.Or([z3.And(z3bool(px >= b[0]), z3bool(px < b[2]), z3bool(py >= b[1]), z3bool(py < b[3]))
                 for b in root_boxes])
    inside = [z3.If(z3.And(z3bool(px >= e.vertices[0].x), z3bool(px < e.vertices[2].x),
                           z3bool(py >= e.vertices[0].y), z3bool(py < e.vertices[2].y)), 1, 0) for e in leaves]
    ok, m = eng.prove(z3.Implies(dom, z3.Sum(inside) == 1), 'tiling')
    if not ok:
        fail('tiling', 'a point of the domain lies in %s leaves' % m.eval(z3.Sum(inside)), m)
    # leaf bookkeeping
    childless = [e for e in mesh.elements if not any(c.parent is e for c in mesh.elements)]
    if set(map(id, childless)) != set(map(id, mesh.leaf_elements)):
        fail('bookkeeping', 'leaf_elements differs from the childless elements', None)
    # vertices unique
    seen = {}
    xs, ys = {}, {}
    for v in mesh.vertices:
        kx, ky = SR.lift(v.x), SR.lift(v.y)
        k = (kx.key(), ky.key())
        if k in seen:
            fail('vertices:duplicate', 'two vertices share the coordinates %r' % (v, ), None)
        seen[k] = v
        xs.setdefault(kx.key(), kx)
        ys.setdefault(ky.key(), ky)
    same = []
    for pol in (list(xs.values()), list(ys.values())):
        for p in range(len(pol)):
            for q in range(p + 1, len(pol)):
                c = pol[p] == pol[q]
                if c is not False:
                    same.append(z3bool(c))
    if same:
        ok, m = eng.prove(z3.Not(z3.Or(same)), 'vertices')
        if not ok:
            fail('vertices:coincide', 'two distinct dyadic coordinates coincide for some size', m)
    # 2:1 balance in index space (roots placed by the integer position of their box in units of the root size)
    return boxes


def balance_violations(boxes, root_pos):
    """Edge-adjacent leaves differ by at most one level.  root_pos: per root integer (ox, oy)."""
    rects = []
    for e, (r, lvl, i, j) in boxes.items():
        ox, oy = root_pos[r]
        s = Fraction(1, 2**lvl)
        rects.append((ox + i * s, oy + j * s, ox + (i + 1) * s, oy + (j + 1) * s, lvl, e))
    bad = []
    for a in rects:
        for b in rects:
            if a is b:
                continue
            share_v = (a[2] == b[0]) and min(a[3], b[3]) > max(a[1], b[1])
            share_h = (a[3] == b[1]) and min(a[2], b[2]) > max(a[0], b[0])
            if (share_v or share_h) and abs(a[4] - b[4]) > 1:
                bad.append((a[5], b[5]))
    return bad


SHAPES = {
    # name: (vertices in units of s, elements, root integer positions)
    'square': ([(0, 0), (1, 0), (1, 1), (0, 1)], [(0, 1, 2, 3)], [(0, 0)]),
    'lshape': ([(0, 0), (0, -1), (1, -1), (1, 0), (1, 1), (0, 1), (-1, 1), (-1, 0)],
               [(1, 2, 3, 0), (0, 3, 4, 5), (7, 0, 5, 6)], [(0, -1), (0, 0), (-1, 0)]),
}


def hist_run(eng, IM, shape, depth, fail, concrete=None):
    verts, elems, root_pos = SHAPES[shape]
    if concrete:
        s = concrete['s']
    else:
        s = eng.real('s')
        eng.assume(s > 0)
    mesh = IM.InitialMesh(vertices=[(s * a, s * b) for a, b in verts], elements=elems)
    roots = list(mesh.elements)
    root_boxes = [(e.vertices[0].x, e.vertices[0].y, e.vertices[2].x, e.vertices[2].y) for e in roots]
    hist = []
    # a lookup before any refinement (callers interleave lookups and refinements on one mesh object)
    v0 = mesh.vertices[0]
    if mesh.vertex_from_coords((v0.x, v0.y)) is not v0:
        fail('lookup', 'vertex_from_coords does not return the root corner it was asked for', None)
    for step in range(depth):
        lv = leaves_sorted(mesh)
        i = concrete['actions'][step] if concrete else eng.choice(len(lv))
        hist.append(i)
        children = mesh.refine(lv[i])
        # the centre of the refined cell is a vertex now and must be retrievable at once
        c = children[0].vertices[2]
        if mesh.vertex_from_coords((c.x, c.y)) is not c:
            fail('lookup', 'a vertex created by refine() is not retrievable through vertex_from_coords afterwards', None)
    for v in mesh.vertices:
        if mesh.vertex_from_coords((v.x, v.y)) is not v:
            fail('lookup', 'vertex %r is in mesh.vertices but vertex_from_coords does not return it' % (v, ), None)
            break
    boxes = check_quadtree(eng, mesh, roots, root_boxes, fail)
    bad = balance_violations(boxes, root_pos)
    if bad:
        fail('balance', 'edge-adjacent leaves differ by two levels: %r / %r' % bad[0], None)
    return hist, len(mesh.leaf_elements)


# -- (b) boundary targeting ------------------------------------------------------------------------------
def factory_info(IM, name):
    """Unit side pieces of the boundary of the shipped domains: (start corner, direction, piece length)."""
    if name == 'UnitSquare':
        u = 1.0
        corners = [(0, 0), (1, 0), (1, 1), (0, 1)]
    elif name == 'PiSquare':
        u = float(np.pi)
        corners = [(0, 0), (u, 0), (u, u), (0, u)]
    else:
        u = 1.0
        corners = [(0, 0), (0, -1), (1, -1), (1, 1), (-1, 1), (-1, 0)]
    pieces = []
    n = len(corners)
    for i in range(n):
        a, b = corners[i], corners[(i + 1) % n]
        ln = abs(b[0] - a[0]) + abs(b[1] - a[1])
        cnt = int(round(ln / u))
        d = ((b[0] - a[0]) / ln, (b[1] - a[1]) / ln)
        for c in range(cnt):
            pieces.append(((a[0] + d[0] * u * c, a[1] + d[1] * u * c), d, u))
    root_pos = {'UnitSquare': [(0, 0)], 'PiSquare': [(0, 0)], 'LShape': [(0, -1), (0, 0), (-1, 0)]}[name]
    return pieces, root_pos, u


def bdr_run(eng, IM, name, piece_idx, level, fail, concrete=None, window=None):
    pieces, root_pos, u = factory_info(IM, name)
    (p0, d, ln) = pieces[piece_idx]
    mesh = getattr(IM, name)()
    roots = list(mesh.elements)
    root_boxes = [(e.vertices[0].x, e.vertices[0].y, e.vertices[2].x, e.vertices[2].y) for e in roots]
    if concrete:
        q0 = Fraction(concrete['k'], 2**level)
        q1 = Fraction(concrete['k'] + 1, 2**level)
        orient, form = concrete['orient'], concrete['form']
        q0, q1 = float(q0), float(q1)
    else:
        k = z3.Int('k')
        q = eng.real('q')
        eng.assume(z3.And(q.z3() * (2**level) == z3.ToReal(k), k >= 0, k < 2**level))
        if window:   # deep levels: k symbolic inside a window of adjacent segments (the descent is 2^level paths otherwise)
            eng.assume(z3.And(k >= window[0], k < window[0] + window[1]))
        q0, q1 = q, q + Fraction(1, 2**level)
        orient = eng.choice(2)
        form = eng.choice(4)
    # callers obtain the end points from the boundary parametrisation in double arithmetic, i.e. only to within
    # rounding: the running coordinate of each end point carries an arbitrary perturbation |delta| <= 1e-15 * unit
    # (the coordinate that is constant along the side is exact, as it is for gamma of a straight side)
    if concrete:
        da, db = concrete.get('da', 0.0), concrete.get('db', 0.0)
        if concrete['k'] == 0 or level not in PERTURBED_LEVELS:
            da = 0.0
        if concrete['k'] == 2**level - 1 or level not in PERTURBED_LEVELS:
            db = 0.0
    else:
        da, db = eng.real('da'), eng.real('db')
        for dl in (da, db):
            eng.assume(dl >= -Fraction(1, 10**15) * Fraction(u))
            eng.assume(dl <= Fraction(1, 10**15) * Fraction(u))
        # corners of the unit pieces are produced exactly by the shipped parametrisations (their constructors assert
        # bit-exact end points), so an end point that is such a corner carries no perturbation
        if q0 == 0 or level not in PERTURBED_LEVELS:
            da = SR.const(0)
        if q1 == 1 or level not in PERTURBED_LEVELS:
            db = SR.const(0)
    a = (p0[0] + d[0] * (ln * q0 + da), p0[1] + d[1] * (ln * q0 + da))
    b = (p0[0] + d[0] * (ln * q1 + db), p0[1] + d[1] * (ln * q1 + db))
    if orient:
        a, b = b, a

    def fmt(v):
        if form == 0:
            return tuple(v)
        if form == 1:
            return list(v)
        if form == 3:
            # plain Python numbers the way a user types a corner: (1, 0) - integers where the value is integral
            def plain(c):
                if isinstance(c, SR):
                    if not c.is_const():
                        # the symbolic position may be a corner: fork on it (k = 0 / k = 2^l - 1)
                        for cand in sorted({float(p0[0]), float(p0[1]), float(p0[0] + d[0] * ln), float(p0[1] + d[1] * ln)}):
                            if cand.is_integer() and bool(c == int(cand)):
                                return int(cand)
                        return c
                    c = c.const_value()
                return int(c) if float(c).is_integer() else c
            return tuple(plain(c) for c in v)
        return np.array([[v[0]], [v[1]]], dtype=object if any(isinstance(c, SR) for c in v) else float)

    elem = mesh.refine_msh_bdr(fmt(a), fmt(b))
    if elem is None or elem not in mesh.leaf_elements:
        fail('bdr:not-leaf', 'refine_msh_bdr returned %r which is not a leaf' % (elem, ), None)
        return None
    # the returned leaf has precisely that edge, and no other leaf has it
    def edge_is(e2):
        alts = []
        for (va, vb) in e2.edges:
            for (s0, s1) in ((a, b), (b, a)):
                alts.append(z3.And(z3bool(eng_close(va.x, s0[0])), z3bool(eng_close(va.y, s0[1])),
                                   z3bool(eng_close(vb.x, s1[0])), z3bool(eng_close(vb.y, s1[1]))))
        return z3.Or(alts)

    ok, m = eng.prove(edge_is(elem), 'bdr:edge')
    if not ok:
        fail('bdr:edge', 'the returned leaf %r does not have the requested segment as an edge' % (elem, ), m)
    others = [edge_is(e2) for e2 in leaves_sorted(mesh) if e2 is not elem]
    if others:
        ok, m = eng.prove(z3.Not(z3.Or(others)), 'bdr:unique')
        if not ok:
            fail('bdr:unique', 'another leaf has the requested segment as an edge too', m)
    for pt in (a, b):
        v = mesh.vertex_from_coords(fmt(pt))
        if v is None:
            fail('bdr:vertex', 'vertex_from_coords does not find the end point %r' % (pt, ), None)
        else:
            ok, m = eng.prove(z3.And(z3bool(eng_close(v.x, pt[0])), z3bool(eng_close(v.y, pt[1]))), 'bdr:vertex')
            if not ok:
                fail('bdr:vertex', 'vertex_from_coords returned a vertex away from the end point', m)
    # a second boundary segment on the SAME mesh object (the far half of the next unit piece), then its end points
    (p2, d2, ln2) = pieces[(piece_idx + 1) % len(pieces)]
    a2 = (p2[0] + d2[0] * ln2 * 0.5, p2[1] + d2[1] * ln2 * 0.5)
    b2 = (p2[0] + d2[0] * ln2 * 1.0, p2[1] + d2[1] * ln2 * 1.0)
    elem2 = mesh.refine_msh_bdr(a2, b2)
    if elem2 is None or elem2 not in mesh.leaf_elements:
        fail('bdr:second', 'a second refine_msh_bdr on the same mesh did not return a leaf', None)
    for pt in (a2, b2):
        if mesh.vertex_from_coords(pt) is None:
            fail('bdr:vertex', 'after a second targeted refinement on the same mesh an end point is not retrievable', None)
    boxes = check_quadtree(eng, mesh, roots, root_boxes, fail, exact=False)
    # balance: root boxes are at integer multiples of u
    bad = balance_violations(boxes, root_pos)
    if bad:
        fail('balance', 'edge-adjacent leaves differ by two levels after boundary refinement', None)
    return len(mesh.leaf_elements)


def eng_close(x, y):
    """|x - y| <= 1e-9 * (1 + |y|) as a (possibly symbolic) truth value without forking."""
    x, y = SR.lift(x), SR.lift(y)
    d = x - y
    if d.is_const() and y.is_const():
        return abs(d.const_value()) <= Fraction(1, 10**9) * (1 + abs(y.const_value()))
    dz = d.z3()
    yz = y.z3()
    tol = z3.RealVal('1/1000000000') * (1 + z3.If(yz >= 0, yz, -yz))
    return z3.And(dz <= tol, -dz <= tol)


# -- workers ------------------------------------------------------------------------------------------
def worker(case):
    IM = load()
    kind = case[0]
    eng = Engine(timeout_ms=30000)
    res = dict(stats=None, violations=[], inconclusive=[], samples=[], functions=[], evaluations=0, nontrivial=0,
               part_extra=dict(states=0, transitions=0))
    cands = []

    def fail(sig, what, model):
        cands.append((sig, what, model))

    if kind == 'hist':
        _, shape, depth, prefix = case

        def body():
            cands.clear()
            return hist_run(eng, IM, shape, depth, fail)
        res['functions'] = ['src/initial_mesh.py:InitialMesh.__init__', 'src/initial_mesh.py:InitialMesh.refine',
                            'src/initial_mesh.py:InitialMesh.bisect_edge', 'src/initial_mesh.py:Element.__init__']
    else:
        _, name, piece_idx, level = case[:4]
        window = case[4] if len(case) > 4 else None
        prefix = ()

        def body():
            cands.clear()
            return bdr_run(eng, IM, name, piece_idx, level, fail, window=window)
        res['functions'] = ['src/initial_mesh.py:InitialMesh.refine_msh_bdr',
                            'src/initial_mesh.py:InitialMesh.vertex_from_coords', 'src/initial_mesh.py:InitialMesh.refine']
    try:
        for pr in eng.explore(body, prefix=list(prefix) if prefix else None):
            res['evaluations'] += 1
            if pr.status == 'exc':
                f = pr.tb[-1]
                cands.append(('exception:%s@%s:%s' % (type(pr.exc).__name__, f.filename.split('/')[-1], f.name),
                              '%s: %s at %s:%d (%s)' % (type(pr.exc).__name__, pr.exc, f.filename, f.lineno, f.line),
                              None))
            elif pr.status == 'ok':
                res['nontrivial'] += 1
                res['part_extra']['states'] += 1
                res['part_extra']['transitions'] += (case[2] if kind == 'hist' else 1)
                if len(res['samples']) < 1:
                    res['samples'].append(dict(case=list(case), result=pr.value, choices=pr.choices))
            for sig, what, model in cands:
                if model is None:
                    _, model = eng.feasible(True)
                vals = {k: str(v) for k, v in eng.model_inputs(model).items() if v is not None}
                if kind == 'hist':
                    rp = dict(kind='hist', shape=case[1], actions=pr.choices, values=vals)
                else:
                    kq = Fraction(vals.get('q', '0')) * 2**level
                    ch = list(pr.choices) + [0, 0]
                    rp = dict(kind='bdr', name=name, piece=piece_idx, level=level, k=int(kq), orient=ch[0], form=ch[1],
                              da=float(Fraction(vals.get('da', '0'))), db=float(Fraction(vals.get('db', '0'))))
                ok_rp = replay(rp)
                if not ok_rp and kind == 'bdr':
                    # the path is feasible over the reals, but the doubles of THIS (level, k) need not lie on it: the
                    # rounded midpoints of the mesh and the rounded k * L / 2^l of the caller agree for most k and
                    # differ by an ulp for a few.  Look for a float witness of the same candidate among the other
                    # segments of this and the next finer levels (replay only - the verdict was the solver's).
                    for rp2 in witness_variants(rp):
                        if replay(rp2):
                            rp, ok_rp = rp2, True
                            what += ' (float witness found at level %d, k = %d)' % (rp2['level'], rp2['k'])
                            break
                res['violations'].append(dict(signature='%s:%s' % (kind, sig), what='%s [%s]' % (what, rp), replay=rp,
                                              reproduced=ok_rp))
            cands.clear()
            if len(res['violations']) >= 2:
                break
    except Inconclusive as e:
        res['inconclusive'].append('%r: %s' % (case, e))
    res['stats'] = eng.stats
    return res


def witness_variants(rp, max_level=8, cap=700):
    n = 0
    for lv in sorted({rp['level'], 5, 6, 7, max_level}):
        if lv < rp['level'] or lv > 10:
            continue
        for k in range(2**lv):
            for (da, db) in ((0.0, 0.0),) + (((rp.get('da', 0.0), rp.get('db', 0.0)),) if lv in PERTURBED_LEVELS else ()):
                if (lv, k, da, db) == (rp['level'], rp['k'], rp.get('da', 0.0), rp.get('db', 0.0)):
                    continue
                n += 1
                if n > cap:
                    return
                yield dict(rp, level=lv, k=k, da=da, db=db)


def replay(rp):
    IM = load()
    # replays run on the unmodified module functions (real math.isclose, real float)
    import math
    IM.isclose = math.isclose
    IM.float = float
    found = []

    def fail(sig, what, model):
        found.append(sig)
    try:
        return _replay(rp, IM, found, fail)
    finally:
        IM.isclose = models.isclose_model
        IM.float = models.float_model


def _replay(rp, IM, found, fail):
    with Engine(timeout_ms=30000) as eng:
        try:
            if rp['kind'] == 'hist':
                s = float(Fraction((rp.get('values') or {}).get('s', '1')))
                if s <= 0:
                    return False
                hist_run(eng, IM, rp['shape'], len(rp['actions']), fail, concrete=dict(s=s, actions=rp['actions']))
            else:
                # plain call of the shipped factory with floats, the way initial_potential.py calls it
                bdr_run(eng, IM, rp['name'], rp['piece'], rp['level'], fail,
                        concrete=dict(k=rp['k'], orient=rp['orient'], form=rp['form'], da=rp.get('da', 0.0),
                                      db=rp.get('db', 0.0)))
        except Exception as e:
            found.append('exception:' + type(e).__name__)
    return bool(found)


def run(out):
    quick = out.tier == 'quick'
    cases = []
    depth = 3 if quick else 4
    for shape in SHAPES:
        n0 = len(SHAPES[shape][1])
        for d in range(1, depth + 1):
            if d >= 3:
                for c in range(n0):
                    cases.append(('hist', shape, d, (c, )))
            else:
                cases.append(('hist', shape, d, ()))
    IM = load()
    lmax = 4 if quick else 6
    for name in ('UnitSquare', 'PiSquare', 'LShape'):
        pieces, _, _ = factory_info(IM, name)
        for pi in range(len(pieces)):
            for level in range(0, lmax + 1):
                cases.append(('bdr', name, pi, level))
    # the property goes to level 10: deep levels with k symbolic inside windows of two adjacent segments (both ends of
    # the piece and an interior position), one piece per domain
    deep = (8, 10) if quick else (7, 8, 9, 10)
    for name, pi in (('UnitSquare', 0), ('PiSquare', 2), ('LShape', 1)):
        for level in deep:
            for k0 in (0, 2**level - 2, (2**level * 2) // 3):
                cases.append(('bdr', name, pi, level, (k0, 2)))
    cases.sort(key=lambda c: -(c[3] if c[0] == 'bdr' else 10 * c[2]))
    results = report.pmap('checks.c16', 'worker', cases)
    for c, r in zip(cases, results):
        report.merge_worker(out, r, part='%s %s' % (c[0], c[1]))
    out.bounds = dict(history_depth=depth, shapes=list(SHAPES), unit='symbolic s > 0',
                      boundary_level_max=lmax, boundary_deep_levels=dict(levels=list(deep), windows='k symbolic in [k0, k0+2), k0 in {0, 2^l - 2, floor(2^(l+1)/3)}', pieces='one per domain'), k='symbolic integer in [0, 2^l)', orientations=2, input_forms=4,
                      end_point_perturbation='|delta| <= 1e-15 * unit on the running coordinate of each non-corner end point, at segment levels %r' % (PERTURBED_LEVELS, ))
    out.outside = ['refinement sequences longer than the stated depth', 'segment levels above the stated maximum '
                   '(the property goes to 10)', 'floating-point rounding of segment end points (reals)']
    out.assumptions = ['math.isclose modelled as |a-b| <= 1e-9*max(|a|,|b|), ndarray arguments first go through '
                       'NumPy\'s own scalar conversion', 'float() is the identity on symbolic scalars',
                       'Element.__hash__ made deterministic (vertex indices) so that set iteration replays']
    states = sum(p.get('states', 0) for p in out.parts.values())
    out.coverage['states'] = states
    out.coverage['transitions'] = sum(p.get('transitions', 0) for p in out.parts.values())
    out.coverage['traces_validated_against_impl'] = states
    out.coverage['exhaustive'] = not out.inconclusive
    out.coverage['rule'] = 'every refine history of the stated depth; every (domain, unit side piece, level) with symbolic k'
