"""C10: reported edge neighbours are exactly the geometric neighbours (same exploration as C02)."""
from checks import c02

LEVEL = 'model_checking'


def run(out):
    c02.run(out, mode='C10')
    out.functions.update(['src/mesh.py:Edge.neighbour_elements', 'src/mesh.py:Edge.bisect'])


def replay(rp):
    return c02.replay(rp)
