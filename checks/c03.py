"""C03 (skeleton): Galerkin orthogonality of the residual handed to the estimators.

 A  the assembly-and-solve statements of example.py (located by AST: from `mat = SL.bilform_matrix(...)` to
    `Phi = np.linalg.solve(mat, rhs)`) are executed with uninterpreted SL / M0 / g_linform (functions of the element
    geometry) and np.linalg.solve replaced by its defining axiom; ErrorEstimator.residual is executed with an
    uninterpreted SL.evaluate / M0u0 / g at a symbolic point.  Under the three link hypotheses
        int_E evaluate(trial_j) = <V 1_j, 1_E>,   int_E M0u0 = <M0 u0, 1_E>,   int_E g = g_linform(E)
    (each of which is a quadrature-accuracy statement and is NOT decided), z3 decides that the element integral of
    the residual vanishes for every element: a linear identity that fails for a flipped sign, a swapped argument
    order, a wrong index or a transposed matrix.
 B  g_linform of the Dirichlet and MildSingular problems equals the exact integral of g over a symbolic element
    (Simpson's rule is exact for t^2).
 C  the residual skips a trial element exactly when evaluate's own guard would return 0 (decided in C04 V1)."""
import ast
import importlib
import os
from fractions import Fraction

import numpy as np
import z3

from checks import c20
from vf import models, report, slsym
from vf.sym import Engine, Inconclusive, SR, z3bool

LEVEL = 'other'


def extract_assembly(repo):
    """Source of the statements of example.py between `mat = SL.bilform_matrix(` and `Phi = np.linalg.solve(`."""
    path = os.path.join(repo, 'example.py')
    with open(path) as f:
        src = f.read()
    import warnings
    with warnings.catch_warnings():
        warnings.simplefilter('ignore')
        tree = ast.parse(src)
    found = None
    for node in ast.walk(tree):
        body = getattr(node, 'body', None)
        if not isinstance(body, list):
            continue
        start = end = None
        for k, st in enumerate(body):
            seg = ast.get_source_segment(src, st) or ''
            if start is None and isinstance(st, ast.Assign) and 'SL.bilform_matrix(' in seg and seg.lstrip().startswith('mat'):
                start = k
            if start is not None and isinstance(st, ast.Assign) and 'np.linalg.solve(' in seg and seg.lstrip().startswith('Phi'):
                end = k
                break
        if start is not None and end is not None:
            found = body[start:end + 1]
            break
    if not found:
        return None, None
    stmts = []
    for st in found:
        seg = ast.get_source_segment(src, st)
        # keep only the numerical statements (drop timing / printing)
        if isinstance(st, (ast.Assign, ast.AugAssign, ast.If)):
            if 'time.time' in seg or 'print(' in seg:
                continue
            stmts.append(st)
    mod = ast.Module(body=stmts, type_ignores=[])
    ast.fix_missing_locations(mod)
    return compile(mod, 'example.py[assembly]', 'exec'), [ast.get_source_segment(src, s) for s in stmts]


class Abstraction:
    """Monomial abstraction shared by axioms and claim: every non-linear monomial is one real."""
    def __init__(self, eng):
        self.eng = eng
        self.vars = {}

    def term(self, m, c):
        if len(m) == 0:
            return z3.RealVal(str(c))
        v = self.vars.get(m)
        if v is None:
            v = z3.Real('mono!%d' % len(self.vars))
            self.vars[m] = v
        return z3.RealVal(str(c)) * v

    def poly(self, p):
        p = SR.lift(p)
        ts = [self.term(m, c) for m, c in sorted(p.p.items())]
        return z3.Sum(ts) if len(ts) > 1 else (ts[0] if ts else z3.RealVal(0))


def integrate_linear(eng, expr, elem_key, stubs):
    """Apply the link hypotheses: the linear functional int_E maps ev(trial_j; t, x) -> B(E, trial_j),
    M0u0(t, x) -> m0(E), g(t, x) -> gl(E); anything else is left (and makes the claim fail)."""
    expr = SR.lift(expr)
    out = SR.const(0)
    for m, c in expr.p.items():
        repl = SR.const(c)
        for a, k in m:
            key = eng.atom_key(a)
            atom = SR({((a, 1), ): Fraction(1)})
            if key[0] == 'uf' and key[1] == 'ev' and k == 1:
                trial_geom = [SR(dict(x)) for x in key[2][:4]]
                repl = repl * eng.apply('B', *(list(elem_key) + trial_geom))
            elif key[0] == 'uf' and key[1] == 'M0u0' and k == 1:
                repl = repl * eng.apply('m0', *elem_key)
            elif key[0] == 'uf' and key[1] == 'gpt' and k == 1:
                repl = repl * eng.apply('g', *elem_key)
            else:
                repl = repl * atom**k
        out = out + repl
    return out


def orthogonality_run(eng, code, with_m0, with_g, n):
    st = c20.Stubs(eng, with_g, with_m0)
    EE = importlib.import_module('src.error_estimator')
    EE.print = models.noprint
    EE.np = models.NpProxy(dict(zeros=models.zeros_model, array=models.array_model, argsort=models.argsort_model))
    models.ARGSORT_TIES.clear()
    # symbolic elements (any geometry: the skeleton is independent of it)
    elems = []
    for i in range(n):
        t0, t1, x0, x1 = eng.reals('t0_%d t1_%d x0_%d x1_%d' % (i, i, i, i))
        eng.assume(t0 < t1)
        eng.assume(x0 < x1)
        elems.append(slsym.Elem(t0, t1, x0, x1, 'gamma%d' % i))
    ns = dict(SL=st, M0=st.M0, g_linform=st.g, elems=elems, N=n,
              np=models.NpProxy(dict(zeros=models.zeros_model), linalg=dict(solve=lambda A, b: st.solve(A, b))))
    exec(code, ns)
    Phi, mat, rhs = ns['Phi'], ns['mat'], ns['rhs']
    if len(st.solves) != 1:
        return ['assembly: expected one linear solve']
    A, b, x = st.solves[0]
    # residual through the real ErrorEstimator.residual with uninterpreted pointwise operators
    est = EE.ErrorEstimator.__new__(EE.ErrorEstimator)

    class FSL:
        def _init_elems(self, e):
            pass

        def evaluate(self, el, t, xh, xx):
            return eng.apply('ev', *(list(c20.geom(el)) + [SR.lift(t), SR.lift(xh)]))

        def evaluate_exact(self, el, t, xh):
            return eng.apply('ev', *(list(c20.geom(el)) + [SR.lift(t), SR.lift(xh)]))
    M0u0 = (lambda t, xx: eng.apply('M0u0', SR.lift(t), SR.lift(xx[0, 0]), SR.lift(xx[1, 0]))) if with_m0 else None
    gpt = (lambda t, xx: eng.apply('gpt', SR.lift(t), SR.lift(xx[0, 0]), SR.lift(xx[1, 0]))) if with_g else None
    r = est.residual(elems, Phi, FSL(), M0u0=M0u0, g=gpt)
    problems = []
    ab = Abstraction(eng)
    axioms = []
    for i in range(n):
        row = SR.const(0)
        for j in range(n):
            row = row + SR.lift(A[i, j]) * SR.lift(x[j])
        axioms.append(ab.poly(row - SR.lift(b[i])) == 0)
    for i, E in enumerate(elems):
        # a point of E late enough that no trial element is skipped for causality reasons: t beyond all starts
        t, xh = eng.real('pt_t%d' % i), eng.real('pt_x%d' % i)
        for tr in elems:
            eng.assume(t > tr.time_interval[0])
        gamma = lambda xx: np.array([[eng.apply('gam1', SR.lift(v)) for v in np.atleast_1d(xx)],
                                     [eng.apply('gam2', SR.lift(v)) for v in np.atleast_1d(xx)]], dtype=object)
        val = r(np.array([t], dtype=object), np.array([xh], dtype=object), gamma)[0]
        integ = integrate_linear(eng, val, c20.geom(E), st)
        s = z3.SolverFor('QF_LRA')
        s.set('timeout', 30000)
        for ax in axioms:
            s.add(ax)
        s.add(ab.poly(integ) != 0)
        eng.stats['verdict_queries'] += 1
        rr = s.check()
        if rr == z3.unsat:
            eng.stats['verdict_unsat'] += 1
        elif rr == z3.sat:
            eng.stats['verdict_sat'] += 1
            problems.append('orthogonality: under the link hypotheses the residual does not integrate to zero over '
                            'element %d (sign / index / argument-order mismatch between assembly and residual)%s' %
                            (i, ' - on a path where np.argsort (default kind: tie order unspecified) returned tied '
                             'keys %r reversed; NumPy does so only for some lengths / builds' % models.ARGSORT_TIES
                             if models.ARGSORT_TIES else ''))
        else:
            raise Inconclusive('solver unknown on orthogonality')
    return problems


def orth_worker(case):
    with_m0, with_g, n = case
    code, stmts = extract_assembly(report.REPO)
    eng = Engine(timeout_ms=30000)
    res = dict(stats=None, violations=[], inconclusive=[], samples=[], functions=[
        'example.py:assembly statements (AST-extracted)', 'src/error_estimator.py:ErrorEstimator.residual'],
        evaluations=0, nontrivial=0)
    if code is None:
        res['inconclusive'].append('could not locate the assembly statements in example.py')
        res['stats'] = eng.stats
        return res
    try:
        for pr in eng.explore(lambda: orthogonality_run(eng, code, with_m0, with_g, n)):
            res['evaluations'] += 1
            if pr.status == 'exc':
                probs = ['orthogonality: exception %r at %s' % (pr.exc, pr.tb[-1])]
            else:
                probs = pr.value
                res['nontrivial'] += 1
            for p in probs[:1]:
                rp = dict(kind='orth', with_m0=with_m0, with_g=with_g, n=n)
                res['violations'].append(dict(signature='orthogonality', what='%s [M0=%s g=%s]' % (p, with_m0, with_g),
                                              replay=rp, reproduced=replay(rp)))
            if res['violations']:
                break
        res['samples'].append(dict(assembly_statements=stmts, M0=with_m0, g=with_g, elements=n))
    except Inconclusive as e:
        res['inconclusive'].append('orthogonality %r: %s' % (case, e))
    res['stats'] = eng.stats
    return res


def replay(rp):
    """Concrete replay: the same extracted statements and the real residual with generic numeric stand-ins for the
    operators whose element integrals are *defined* through the link hypotheses (piecewise constant in the element):
    the residual's element mean must vanish."""
    import random
    if rp['kind'] == 'glin':
        return glin_concrete(rp)
    if rp['kind'] == 'shipped':
        return shipped_concrete(rp)
    code, _ = extract_assembly(report.REPO)
    EE = importlib.import_module('src.error_estimator')
    saved = EE.np
    EE.np = np
    try:
        n = rp['n']
        rnd = random.Random(1)
        elems = [slsym.Elem(0.0, 1.0, float(i), float(i + 1), 'g%d' % i) for i in range(n)]
        Bm = np.array([[rnd.uniform(0.1, 0.2) for _ in range(n)] for _ in range(n)]) + 2 * np.eye(n)
        m0 = np.array([rnd.uniform(0.5, 1.5) for _ in range(n)])
        gl = np.array([rnd.uniform(0.5, 1.5) for _ in range(n)])
        idx = {id(e): i for i, e in enumerate(elems)}

        class S:
            def bilform_matrix(self, et, er, use_mp=False):
                return np.array([[Bm[idx[id(a)], idx[id(b)]] for b in er] for a in et])

            def linform_vector(self, elems=None, use_mp=False):
                return np.array([m0[idx[id(e)]] for e in elems])
        st = S()
        ns = dict(SL=st, M0=st if rp['with_m0'] else None,
                  g_linform=(lambda es: np.array([gl[idx[id(e)]] for e in es])) if rp['with_g'] else None,
                  elems=elems, N=n, np=np)
        exec(code, ns)
        Phi = ns['Phi']
        # pointwise operators that are constant on each element with the right element integral (|E| = 1)
        est = EE.ErrorEstimator.__new__(EE.ErrorEstimator)

        class FSL:
            def _init_elems(self, e):
                pass

            def evaluate(self, el, t, xh, xx):
                return Bm[int(xh), idx[id(el)]]
        r = est.residual(elems, Phi, FSL(), M0u0=(lambda t, xx: m0[int(xx[0, 0])]) if rp['with_m0'] else None,
                         g=(lambda t, xx: gl[int(xx[0, 0])]) if rp['with_g'] else None)
        gamma = lambda xx: np.vstack([np.asarray(xx, dtype=float), 0 * np.asarray(xx, dtype=float)])
        for i in range(n):
            v = r(np.array([0.5]), np.array([i + 0.5]), gamma)[0]
            if abs(v) > 1e-9:
                return True
        return False
    except Exception:
        return True
    finally:
        EE.np = saved


# -- B: g-linform ---------------------------------------------------------------------------------------
def glin_worker(problem):
    import sys
    if report.REPO not in sys.path:
        sys.path.insert(0, report.REPO)
    PR = importlib.import_module('problems')
    PR.np = models.NpProxy(dict(array=models.array_model))
    eng = Engine(timeout_ms=30000)
    res = dict(stats=None, violations=[], inconclusive=[], samples=[], functions=['problems.py:problem_helper'],
               evaluations=0, nontrivial=0)

    def body():
        t0, t1, x0, x1 = eng.reals('t0 t1 x0 x1')
        eng.assume(t0 >= 0)
        eng.assume(t0 < t1)
        eng.assume(x0 < x1)
        data = PR.problem_helper(problem, 'UnitSquare')
        E = slsym.Elem(t0, t1, x0, x1, None)
        got = data['g-linform']([E])[0]
        g = data['g']
        tm = (t0 + t1) / 2
        xy = np.array([[SR.const(0)], [SR.const(0)]], dtype=object)
        simpson = (t1 - t0) / 6 * (SR.lift(g(t0, xy)) + 4 * SR.lift(g(tm, xy)) + SR.lift(g(t1, xy))) * (x1 - x0)
        return eng.prove_identity(got, simpson, 'g-linform', rtol=1e-12)
    try:
        for pr in eng.explore(body):
            res['evaluations'] += 1
            res['nontrivial'] += 1
            bad = None
            if pr.status == 'exc':
                bad = 'g-linform raised %r' % (pr.exc, )
            elif not pr.value[0]:
                bad = 'g-linform of %s is not the exact element integral of g' % problem
            if bad:
                rp = dict(kind='glin', problem=problem)
                res['violations'].append(dict(signature='g-linform:%s' % problem, what=bad, replay=rp, reproduced=replay(rp)))
        res['samples'].append(dict(problem=problem, element='symbolic [t0,t1]x[x0,x1]'))
    except Inconclusive as e:
        res['inconclusive'].append('g-linform %s: %s' % (problem, e))
    res['stats'] = eng.stats
    return res


def glin_concrete(rp):
    import sys
    if report.REPO not in sys.path:
        sys.path.insert(0, report.REPO)
    PR = importlib.import_module('problems')
    saved = PR.np
    PR.np = np
    try:
        data = PR.problem_helper(rp['problem'], 'UnitSquare')
        for (t0, t1, x0, x1) in ((0.0, 1.0, 0.0, 1.0), (0.25, 0.75, 1.0, 1.5), (0.5, 2.0, 3.0, 3.25)):
            E = slsym.Elem(t0, t1, x0, x1, None)
            got = float(data['g-linform']([E])[0])
            g = data['g']
            xy = np.zeros((2, 1))
            want = (t1 - t0) / 6 * (g(t0, xy) + 4 * g((t0 + t1) / 2, xy) + g(t1, xy)) * (x1 - x0)
            if abs(got - want) > 1e-12 * (1 + abs(want)):
                return True
        return False
    except Exception:
        return True
    finally:
        PR.np = saved


# -- M: the shipped closed-form M0u0 / g through the real residual -----------------------------------------
SHIPPED = [('Singular', 'UnitSquare'), ('Singular', 'LShape'), ('Smooth', 'UnitSquare'), ('Smooth', 'PiSquare'),
           ('Dirichlet', 'UnitSquare'), ('MildSingular', 'Circle')]


def shipped_run(eng, problem, domain, concrete=None):
    """residual(...) built by the real ErrorEstimator with the problem's own M0u0 / g evaluated at a point of the
    boundary: must evaluate (no exception) and equal sum_j Phi_j ev_j + M0u0(t, x) - g(t, x).  t is symbolic where
    the closed form is real-valued (Singular: erf of real arguments); the Smooth closed forms use complex erf and
    are evaluated at concrete instants."""
    import sys
    if report.REPO not in sys.path:
        sys.path.insert(0, report.REPO)
    PR = importlib.import_module('problems')
    EE = importlib.import_module('src.error_estimator')
    EE.print = models.noprint
    EE.np = models.NpProxy(dict(zeros=models.zeros_model))
    symbolic = problem != 'Smooth' and concrete is None
    if symbolic:
        PR.np = models.NpProxy(dict(sqrt=models.sqrt_model, array=models.array_model))
        PR.erf = models.uf_model('erf', PR.__dict__.get('_real_erf', __import__('scipy.special').special.erf), odd=True)
    else:
        PR.np = np
        PR.erf = __import__('scipy.special').special.erf
    data = PR.problem_helper(problem, domain)
    gamma = slsym.curve_pieces(domain)
    piece = gamma.pw_gamma[0]
    x_hat = 0.3 * float(gamma.pw_start[1])
    if symbolic:
        s_ = eng.real('s')
        eng.assume(s_ > 0)
        t = s_ * s_
        eng.register_sqrt(t, s_)
    else:
        t = concrete if concrete is not None else 0.37
    elems = [slsym.Elem(0.0, 1.0, 0.0, float(gamma.pw_start[1]), piece)]
    est = EE.ErrorEstimator.__new__(EE.ErrorEstimator)

    class FSL:
        def _init_elems(self, e):
            pass

        def evaluate(self, el, tt, xh, xx):
            return eng.apply('ev', SR.lift(tt)) if symbolic else 0.25
    r = est.residual(elems, [SR.const(2) if symbolic else 2.0], FSL(), M0u0=data.get('M0u0'), g=data.get('g'))
    tarr = np.array([t], dtype=object) if symbolic else np.array([t])
    val = r(tarr, np.array([x_hat]), piece)[0]
    # independent: the same data evaluated directly
    x = piece(np.array([x_hat]))
    want = (2 * eng.apply('ev', SR.lift(t))) if symbolic else 0.5
    if t > 0 if not symbolic else True:
        if 'M0u0' in data:
            m = data['M0u0'](t, x.reshape(2, 1))
            want = want + (np.asarray(m).reshape(-1)[0])
        if 'g' in data:
            want = want - data['g'](t, x.reshape(2, 1))
    if symbolic:
        return eng.prove_identity(val, want, 'residual=definition', rtol=1e-12)[0]
    return abs(float(val) - float(want)) <= 1e-12 * (1 + abs(float(want)))


def shipped_worker(case):
    problem, domain = case
    eng = Engine(timeout_ms=30000)
    res = dict(stats=None, violations=[], inconclusive=[], samples=[], functions=[
        'problems.py:problem_helper', 'src/error_estimator.py:ErrorEstimator.residual'], evaluations=0, nontrivial=0)
    try:
        for pr in eng.explore(lambda: shipped_run(eng, problem, domain)):
            res['evaluations'] += 1
            res['nontrivial'] += 1
            bad = None
            if pr.status == 'exc':
                bad = 'the residual function raises %s: %s (at %s:%d)' % (type(pr.exc).__name__, pr.exc,
                                                                        pr.tb[-1].filename.split('/')[-1], pr.tb[-1].lineno)
            elif not pr.value:
                bad = 'the residual function is not V Phi + M0u0 - g'
            if bad:
                rp = dict(kind='shipped', problem=problem, domain=domain)
                res['violations'].append(dict(signature='residual-shipped:%s' % ('exception' if pr.status == 'exc' else 'value'),
                                              what='%s [problem %s on %s]' % (bad, problem, domain), replay=rp,
                                              reproduced=replay(rp)))
        res['samples'].append(dict(problem=problem, domain=domain))
    except Inconclusive as e:
        res['inconclusive'].append('shipped %r: %s' % (case, e))
    res['stats'] = eng.stats
    return res


def shipped_concrete(rp):
    """Plain floats on the unmodified modules: the residual built from the problem's own data must evaluate."""
    import sys
    if report.REPO not in sys.path:
        sys.path.insert(0, report.REPO)
    PR = importlib.import_module('problems')
    EE = importlib.import_module('src.error_estimator')
    import scipy.special
    saved = (PR.np, PR.erf, EE.np)
    PR.np, PR.erf, EE.np = np, scipy.special.erf, np
    try:
        data = PR.problem_helper(rp['problem'], rp['domain'])
        gamma = slsym.curve_pieces(rp['domain'])
        piece = gamma.pw_gamma[0]
        elems = [slsym.Elem(0.0, 1.0, 0.0, float(gamma.pw_start[1]), piece)]
        est = EE.ErrorEstimator.__new__(EE.ErrorEstimator)

        class FSL:
            def _init_elems(self, e):
                pass

            def evaluate(self, el, tt, xh, xx):
                return 0.25
        r = est.residual(elems, [2.0], FSL(), M0u0=data.get('M0u0'), g=data.get('g'))
        xh = 0.3 * float(gamma.pw_start[1])
        for t in (0.37, 0.05, 1.0):
            try:
                val = r(np.array([t]), np.array([xh]), piece)[0]
            except Exception:
                return True
            x = piece(np.array([xh]))
            want = 0.5
            if 'M0u0' in data:
                want += float(np.asarray(data['M0u0'](t, x.reshape(2, 1))).reshape(-1)[0])
            if 'g' in data:
                want -= float(data['g'](t, x.reshape(2, 1)))
            if abs(float(val) - want) > 1e-10 * (1 + abs(want)):
                return True
        return False
    finally:
        PR.np, PR.erf, EE.np = saved


def run(out):
    cases = [(True, False, 3), (False, True, 3), (True, True, 3), (True, True, 2)]
    for c, r in zip(cases, report.pmap('checks.c03', 'orth_worker', cases)):
        report.merge_worker(out, r, part='A orthogonality skeleton')
    probs = ['Dirichlet', 'MildSingular']
    for c, r in zip(probs, report.pmap('checks.c03', 'glin_worker', probs)):
        report.merge_worker(out, r, part='B g-linform')
    for c, r in zip(SHIPPED, report.pmap('checks.c03', 'shipped_worker', SHIPPED)):
        report.merge_worker(out, r, part='M shipped problem data through the real residual')
    out.bounds = dict(elements='2-3 elements of arbitrary symbolic geometry', data='with M0 only, g only, both',
                      g_linform='Dirichlet, MildSingular on a symbolic element')
    out.outside = ['the three link hypotheses themselves (quadrature accuracy of evaluate / M0u0 / g against matrix, load '
                   'and g-linform entries): not decidable by an SMT solver', 'the closed-form M0u0 of problems.py',
                   'the 5e-5 tolerance of the property']
    out.assumptions = ['np.linalg.solve replaced by its defining axiom', 'SL / M0 / g uninterpreted functions of the geometry',
                       'assembly statements located in example.py by AST pattern (mat = SL.bilform_matrix ... Phi = '
                       'np.linalg.solve)', 'causality skip of the residual: C04 V1']
    out.coverage['exhaustive'] = not out.inconclusive
    out.coverage['rule'] = 'one exploration per data combination; linear identity under the axiom system of the solve'
