"""C08 (structural part): initial-potential load vector.

The real InitialOperator.linform is executed on the real boundary-refined domain meshes with a *symbolic time interval*
[a, b] (a >= 0) and an *uninterpreted initial datum* u0; E1 (scipy exp1) is an uninterpreted function.
 G  classification (concrete geometry, every dyadic boundary segment of level <= L of the three domains): exactly one
    leaf has the segment as an edge; every leaf whose closed cell meets the closed segment is that leaf or has v0 / v1
    as a vertex (so no singular cell is integrated with the regular map); for the identical cell the parametrisation is
    orthonormal: |gamma_Q(x,z) - gamma_K(y)|^2 = h^2((x-y)^2 + z^2) as a polynomial identity in symbolic x, y, z.
 K  time kernel: for symbolic 0 <= a < b < c the load is additive in time, linform([a,c]) = linform([a,b]) +
    linform([b,c]), and linform([a,b]) = linform([0,b]) - linform([0,a]) for a > 0 - exact identities that pin the
    a == 0 case distinction and the sign/arguments of the two E1 terms (z3 forks on a == 0, and on np.isclose if a
    tolerance test is used).
 U  linearity: linform(alpha*u + beta*v) = alpha*linform(u) + beta*linform(v) for uninterpreted u, v.
 V  with u0 = 1 and the kernel replaced by 1, every cell contributes area(cell) x |segment| (all segments of level <= 2 / 4 of
    the three domains; ground rational facts)
 R  the rules the operator actually holds (duff_3d_id, duff_3d_touch) integrate every monomial of total degree <= 2 on
    the unit cube - in particular the non-symmetric ones x, y, x*z, y*z - within 1e-12 (ground rational facts).
The 1e-5 agreement with closed-form potentials, space additivity and the pointwise Gauss evaluation are not decided."""
import importlib
import itertools
from fractions import Fraction

import numpy as np
import scipy.special
import z3

from checks import c15
from vf import models, report, slsym
from vf.sym import Engine, Inconclusive, SR, z3bool

LEVEL = 'other'
DOMAINS = {'UnitSquare': 'UnitSquareBoundaryRefined', 'PiSquare': 'PiSquareBoundaryRefined',
           'LShape': 'LShapeBoundaryRefined'}


def load():
    IP = importlib.import_module('src.initial_potential')
    IM = importlib.import_module('src.initial_mesh')
    IP.print = models.noprint
    IP.exp1 = models.uf_model('E1', scipy.special.exp1)
    IP.np = models.NpProxy(dict(zeros=models.zeros_model, array=models.array_model, isclose=c15.isclose_np,
                                allclose=c15.allclose_np, all=models.all_model))
    IP.math = slsym.MathProxy(dict(fsum=models.fsum_model, isclose=models.isclose_model))
    return IP, IM


def make_op(IP, IM, curve, u0, quad_int):
    gamma = slsym.curve_pieces(curve)
    op = IP.InitialOperator(slsym.FakeMesh(gamma), u0, initial_mesh=getattr(IM, DOMAINS[curve]), quad_int=quad_int,
                            quad_eval=3)
    return gamma, op


def segment_cells(gamma, level):
    out = []
    starts = list(gamma.pw_start)
    for i, g in enumerate(gamma.pw_gamma):
        a, b = starts[i], starts[i + 1]
        # unit pieces of the side
        ln = b - a
        unit = ln / round(ln / (np.pi if abs(ln / np.pi - round(ln / np.pi)) < 1e-9 and ln > 3 else 1.0))
        n_units = int(round(ln / unit))
        for u in range(n_units):
            for k in range(2**level):
                c = a + unit * u + unit * k / 2**level
                d = a + unit * u + unit * (k + 1) / 2**level
                out.append((c, d, g))
    return out


# -- G ---------------------------------------------------------------------------------------------------
def geometry_worker(case):
    curve, level = case
    IP, IM = load()
    eng = Engine(timeout_ms=30000)
    res = dict(stats=None, violations=[], inconclusive=[], samples=[], functions=[
        'src/initial_potential.py:InitialOperator.linform', 'src/initial_mesh.py:InitialMesh.refine_msh_bdr',
        'src/initial_mesh.py:Element.connected_to_vertex'], evaluations=0, nontrivial=0)
    gamma = slsym.curve_pieces(curve)
    for (c, d, piece) in segment_cells(gamma, level):
        res['evaluations'] += 1
        res['nontrivial'] += 1
        p0, p1 = piece(c), piece(d)
        try:
            mesh = getattr(IM, DOMAINS[curve])(p0, p1)
            v0, v1 = mesh.vertex_from_coords(p0), mesh.vertex_from_coords(p1)
        except Exception as e:
            rp = dict(kind='geometry', curve=curve, c=c, d=d)
            res['violations'].append(dict(signature='geometry:exception', what='domain mesh for the segment [%r, %r] of %s '
                                          'cannot be built: %r' % (c, d, curve), replay=rp, reproduced=True))
            break
        bad = None
        if v0 is None or v1 is None:
            bad = 'end points of the segment are not vertices of the domain mesh'
        else:
            ident = [e for e in mesh.leaf_elements if v0 in e.vertices and v1 in e.vertices]
            if len(ident) != 1:
                bad = '%d leaves have the segment as an edge' % len(ident)
            sx = sorted([float(p0[0, 0]), float(p1[0, 0])])
            sy = sorted([float(p0[1, 0]), float(p1[1, 0])])
            for e in mesh.leaf_elements:
                x0, y0, x1, y1 = e.vertices[0].x, e.vertices[0].y, e.vertices[2].x, e.vertices[2].y
                tol = 1e-12 * max(1.0, abs(x1), abs(y1))
                meets = not (x1 < sx[0] - tol or x0 > sx[1] + tol or y1 < sy[0] - tol or y0 > sy[1] + tol)
                if meets and not (v0 in e.vertices or v1 in e.vertices):
                    bad = 'leaf %r meets the segment but has neither end point as a vertex: it would be integrated with ' \
                          'the regular (non-singular) map' % (e, )
            if ident and not bad:
                e = ident[0]
                tmp = [v for v in e.connected_to_vertex(v0) if v is not v1]
                n0, n1, n2 = v0.xy_np, v1.xy_np, tmp[0].xy_np
                h = d - c
                x, y, z = eng.reals('x y z')
                gq = [SR.lift(float(n0[k, 0])) + SR.lift(float((n1 - n0)[k, 0])) * x + SR.lift(float((n2 - n0)[k, 0])) * z
                      for k in (0, 1)]
                gk = [SR.lift(float(n0[k, 0])) + SR.lift(float((n1 - n0)[k, 0])) * y for k in (0, 1)]
                dist2 = (gq[0] - gk[0])**2 + (gq[1] - gk[1])**2
                ok, _ = eng.prove_identity(dist2, SR.lift(float(h))**2 * ((x - y)**2 + z * z), 'orthonormal', rtol=1e-9)
                if not ok:
                    bad = 'identical cell: |gamma_Q(x,z) - gamma_K(y)|^2 is not h^2((x-y)^2 + z^2)'
        if bad:
            rp = dict(kind='geometry', curve=curve, c=float(c), d=float(d))
            res['violations'].append(dict(signature='geometry:%s' % curve, what='%s [segment [%r, %r] of %s]' % (bad, c, d, curve),
                                          replay=rp, reproduced=True))
            break
    res['samples'].append(dict(curve=curve, level=level, segments=len(segment_cells(gamma, level))))
    res['stats'] = eng.stats
    return res



def cells_cover(ips, curve):
    """The load is a sum over every cell of the domain mesh exactly once: the cells listed in the second return value
    of linform are pairwise different and their areas add up to the area of the domain (exact rationals of the doubles)."""
    cells = [e for e, _ in ips]
    if len(set(id(e) for e in cells)) != len(cells):
        return False, 'a cell is integrated twice'
    area = Fraction(0)
    for e in cells:
        x0, y0, x1, y1 = (Fraction(float(v)) for v in (e.vertices[0].x, e.vertices[0].y, e.vertices[2].x, e.vertices[2].y))
        area += abs((x1 - x0) * (y1 - y0))
    want = {'UnitSquare': Fraction(1), 'LShape': Fraction(3), 'PiSquare': Fraction(float(np.pi))**2}[curve]
    if abs(area - want) > Fraction(1, 10**9) * want:
        return False, 'the integrated cells cover area %.12g of the domain (area %.12g): a cell is skipped' % (float(area), float(want))
    return True, ''


# -- K, U -------------------------------------------------------------------------------------------------
def kernel_run(eng, curve, seg, quad_int):
    IP, IM = load()
    u0 = lambda xz: np.array([eng.apply('u0', SR.lift(float(p)), SR.lift(float(q))) for p, q in
                              zip(np.atleast_2d(xz)[0], np.atleast_2d(xz)[1])], dtype=object)
    gamma, op = make_op(IP, IM, curve, u0, quad_int)
    cells = segment_cells(gamma, seg[0])
    c, d, piece = cells[seg[1]]
    a, b, cc = eng.reals('a b c')
    eng.assume(a >= 0)
    eng.assume(a < b)
    eng.assume(b < cc)

    def L(t0, t1):
        return SR.lift(op.linform(slsym.Elem(t0, t1, c, d, piece))[0])
    cover, why = cells_cover(op.linform(slsym.Elem(a, cc, c, d, piece))[1], curve)
    if not cover:
        return True, True, why
    whole = L(a, cc)
    ok1, _ = eng.prove_identity(whole, L(a, b) + L(b, cc), 'time-additive', rtol=1e-12)
    ok2 = True
    if a > 0:
        ok2, _ = eng.prove_identity(L(a, b), L(SR.const(0), b) - L(SR.const(0), a), 'from-zero', rtol=1e-12)
    return ok1, ok2, ''


def linear_run(eng, curve, seg, quad_int):
    IP, IM = load()
    al, be = eng.reals('alpha beta')

    def mk(fn):
        return lambda xz: np.array([fn(SR.lift(float(p)), SR.lift(float(q))) for p, q in
                                    zip(np.atleast_2d(xz)[0], np.atleast_2d(xz)[1])], dtype=object)
    U = lambda p, q: eng.apply('u', p, q)
    V = lambda p, q: eng.apply('v', p, q)
    gamma = slsym.curve_pieces(curve)
    cells = segment_cells(gamma, seg[0])
    c, d, piece = cells[seg[1]]
    a, b = eng.reals('a b')
    eng.assume(a >= 0)
    eng.assume(a < b)
    vals = []
    for fn in (lambda p, q: al * U(p, q) + be * V(p, q), U, V):
        _, op = make_op(IP, IM, curve, mk(fn), quad_int)
        vals.append(SR.lift(op.linform(slsym.Elem(a, b, c, d, piece))[0]))
    return eng.prove_identity(vals[0], al * vals[1] + be * vals[2], 'linear', rtol=1e-12)


def kernel_worker(case):
    kind, curve, seg, quad_int = case
    eng = Engine(timeout_ms=60000)
    res = dict(stats=None, violations=[], inconclusive=[], samples=[], functions=[
        'src/initial_potential.py:InitialOperator.linform', 'src/initial_potential.py:time_integrated_kernel',
        'src/initial_potential.py:InitialOperator.__init__'], evaluations=0, nontrivial=0)
    try:
        fn = kernel_run if kind == 'kernel' else linear_run
        for pr in eng.explore(lambda: fn(eng, curve, seg, quad_int)):
            res['evaluations'] += 1
            bad = None
            if pr.status == 'exc':
                bad = 'linform raised %r at %s' % (pr.exc, pr.tb[-1])
            else:
                res['nontrivial'] += 1
                if kind == 'kernel':
                    if pr.value[2]:
                        bad = 'cover: ' + pr.value[2]
                    elif not pr.value[0]:
                        bad = 'load is not additive when the time interval is split'
                    elif not pr.value[1]:
                        bad = 'linform([a,b]) differs from linform([0,b]) - linform([0,a]) for a > 0'
                elif not pr.value[0]:
                    bad = 'load is not linear in the initial datum'
            if bad:
                mm = eng.feasible(True)[1]
                vals = {k: str(v) for k, v in eng.model_inputs(mm).items() if v is not None}
                rp = dict(kind=kind, curve=curve, seg=list(seg), values=vals)
                res['violations'].append(dict(signature='%s:%s' % (kind, curve), what='%s [%s, segment %r, %s]' %
                                              (bad, curve, seg, vals), replay=rp, reproduced=replay(rp)))
                break
        res['samples'].append(dict(kind=kind, curve=curve, segment=list(seg), quad_int=quad_int))
    except Inconclusive as e:
        res['inconclusive'].append('%r: %s' % (case, e))
    res['stats'] = eng.stats
    return res


def replay(rp):
    """Plain floats on the unmodified module."""
    IP = importlib.import_module('src.initial_potential')
    IM = importlib.import_module('src.initial_mesh')
    import math
    saved = (IP.np, IP.exp1, IP.math)
    IP.np, IP.exp1, IP.math = np, scipy.special.exp1, math
    try:
        if rp['kind'] in ('geometry', 'rule'):
            return True
        if rp['kind'] == 'measure':
            IP.np, IP.exp1, IP.math = saved
            return any(abs(v - w) > Fraction(1, 10**9) * w for (_, _, _, v, w) in measure_rows(rp['curve'], rp['levels']))
        curve = rp['curve']
        gamma = slsym.curve_pieces(curve)
        cells = segment_cells(gamma, rp['seg'][0])
        c, d, piece = cells[rp['seg'][1]]
        vals = {k: float(Fraction(v)) for k, v in rp['values'].items()}
        u = lambda xz: np.sin(1.3 * xz[0] + 0.2) * np.cos(0.7 * xz[1]) + 0.5 * xz[0]
        v = lambda xz: xz[0] * xz[0] - 0.3 * xz[1] + 1.0
        if rp['kind'] == 'kernel':
            a, b, cc = vals.get('a'), vals.get('b'), vals.get('c')
            if a is None or b is None or cc is None or not (0 <= a < b < cc):
                return False
            op = IP.InitialOperator(slsym.FakeMesh(gamma), u, initial_mesh=getattr(IM, DOMAINS[curve]), quad_int=4,
                                    quad_eval=3)
            L = lambda t0, t1: op.linform(slsym.Elem(t0, t1, c, d, piece))[0]
            if not cells_cover(op.linform(slsym.Elem(a, cc, c, d, piece))[1], curve)[0]:
                return True
            w = L(a, cc)
            if abs(w - (L(a, b) + L(b, cc))) > 1e-9 * abs(w):
                return True
            if a > 0 and abs(L(a, b) - (L(0.0, b) - L(0.0, a))) > 1e-9 * abs(L(0.0, b)):
                return True
            return False
        a, b = vals.get('a', 0.0), vals.get('b', 1.0)
        al, be = vals.get('alpha', 2.0), vals.get('beta', -3.0)
        mk = lambda f: IP.InitialOperator(slsym.FakeMesh(gamma), f, initial_mesh=getattr(IM, DOMAINS[curve]), quad_int=4,
                                          quad_eval=3).linform(slsym.Elem(a, b, c, d, piece))[0]
        lhs = mk(lambda xz: al * u(xz) + be * v(xz))
        rhs = al * mk(u) + be * mk(v)
        return abs(lhs - rhs) > 1e-9 * (abs(lhs) + abs(rhs))
    except Exception:
        return True
    finally:
        IP.np, IP.exp1, IP.math = saved


# -- R ---------------------------------------------------------------------------------------------------
def rule_worker(quad_int):
    IP, IM = load()
    eng = Engine(timeout_ms=30000)
    res = dict(stats=None, violations=[], inconclusive=[], samples=[], functions=[
        'src/initial_potential.py:InitialOperator.__init__', 'src/quadrature.py:DuffySchemeIdentical3D',
        'src/quadrature.py:DuffySchemeTouch3D'], evaluations=0, nontrivial=0)
    gamma, op = make_op(IP, IM, 'UnitSquare', lambda xz: 1, quad_int)
    tol = Fraction(1, 10**12)
    for name in ('duff_3d_id', 'duff_3d_touch'):
        s = getattr(op, name)
        pts = np.asarray(s.points, dtype=float)
        wts = np.asarray(s.weights, dtype=float)
        P = [[Fraction(float(v)) for v in row] for row in pts]
        W = [Fraction(float(v)) for v in wts]
        for e in itertools.product(range(3), repeat=3):
            if sum(e) > min(2, quad_int - 2):   # 3-D Duffy: base degree minus two
                continue
            val = sum(w * P[0][k]**e[0] * P[1][k]**e[1] * P[2][k]**e[2] for k, w in enumerate(W))
            want = Fraction(1, (e[0] + 1) * (e[1] + 1) * (e[2] + 1))
            res['evaluations'] += 1
            res['nontrivial'] += 1
            ok, _ = eng.prove(z3bool(SR.const(abs(val - want)) <= SR.const(tol)), 'rule')
            if not ok:
                rp = dict(kind='rule', quad_int=quad_int, rule=name, e=list(e))
                res['violations'].append(dict(signature='rule:%s' % name, what='the operator\'s %s (quad_int=%d) integrates '
                                              'x^%d y^%d z^%d over the unit cube to %.12g instead of %.12g (a rule valid '
                                              'only for integrands symmetric in x and y?)' %
                                              (name, quad_int, e[0], e[1], e[2], float(val), float(want)), replay=rp,
                                              reproduced=True))
                break
    res['samples'].append(dict(quad_int=quad_int, rules=['duff_3d_id', 'duff_3d_touch']))
    res['stats'] = eng.stats
    return res


# -- V measure ----------------------------------------------------------------------------------------------
def measure_rows(curve, levels):
    """Real linform in floats with u0 = 1 and the exponential integral replaced by the constant 4*pi (so that the
    time-integrated kernel is identically 1): every cell's contribution must then be area(cell) * |segment|.
    Returns [(c, d, cell box, value, expected)] as exact rationals of the doubles."""
    import math
    IP = importlib.import_module('src.initial_potential')
    IM = importlib.import_module('src.initial_mesh')
    saved = (IP.np, IP.exp1, IP.math)
    IP.np, IP.math = np, math
    IP.exp1 = lambda x: np.asarray(x, dtype=float) * 0 + 4 * np.pi
    rows = []
    try:
        gamma = slsym.curve_pieces(curve)
        op = IP.InitialOperator(slsym.FakeMesh(gamma), lambda xz: np.asarray(xz[0], dtype=float) * 0 + 1.0,
                                initial_mesh=getattr(IM, DOMAINS[curve]), quad_int=3, quad_eval=3)
        for level in levels:
            for (c, d, piece) in segment_cells(gamma, level):
                _, ips = op.linform(slsym.Elem(0.0, 1.0, c, d, piece))
                for e, val in ips:
                    x0, y0, x1, y1 = (Fraction(float(v)) for v in (e.vertices[0].x, e.vertices[0].y, e.vertices[2].x,
                                                                   e.vertices[2].y))
                    want = abs((x1 - x0) * (y1 - y0)) * (Fraction(float(d)) - Fraction(float(c)))
                    rows.append((float(c), float(d), tuple(float(v) for v in (x0, y0, x1, y1)), Fraction(float(val)), want))
    finally:
        IP.np, IP.exp1, IP.math = saved
    return rows


def measure_worker(case):
    curve, levels = case
    eng = Engine(timeout_ms=30000)
    res = dict(stats=None, violations=[], inconclusive=[], samples=[], functions=[
        'src/initial_potential.py:InitialOperator.linform', 'src/initial_mesh.py:Element.diam',
        'src/initial_mesh.py:InitialMesh.refine_msh_bdr'], evaluations=0, nontrivial=0)
    try:
        rows = measure_rows(curve, levels)
    except Exception as e:
        rp = dict(kind='measure', curve=curve, levels=list(levels))
        res['violations'].append(dict(signature='measure:%s:exception' % curve, what='linform raises %r with u0 = 1 and a '
                                      'constant kernel' % (e, ), replay=rp, reproduced=True))
        rows = []
    tol = Fraction(1, 10**9)
    for (c, d, box, val, want) in rows:
        res['evaluations'] += 1
        res['nontrivial'] += 1
        ok, _ = eng.prove(z3bool(SR.const(abs(val - want)) <= SR.const(tol * want)), 'measure')
        if not ok:
            rp = dict(kind='measure', curve=curve, levels=list(levels))
            res['violations'].append(dict(signature='measure:%s' % curve, what='with u0 = 1 and the kernel replaced by 1 the '
                                          'contribution of the cell %r to the load of the segment [%r, %r] of %s is %.12g, '
                                          'not area x length = %.12g (a volume / scale factor is wrong)' %
                                          (box, c, d, curve, float(val), float(want)), replay=rp, reproduced=True))
            break
    res['samples'].append(dict(curve=curve, levels=list(levels), cell_contributions=len(rows)))
    res['stats'] = eng.stats
    return res


def run(out):
    quick = out.tier == 'quick'
    g = [(c, l) for c in DOMAINS for l in ((0, 1, 2) if quick else (0, 1, 2, 3, 4))]
    for c, r in zip(g, report.pmap('checks.c08', 'geometry_worker', g)):
        report.merge_worker(out, r, part='G classification %s' % c[0])
    k = []
    for curve in (['UnitSquare', 'LShape'] if quick else list(DOMAINS)):
        for seg in ((0, 0), (1, 1)) if quick else ((0, 0), (1, 0), (1, 1), (2, 3)):
            k.append(('kernel', curve, seg, 1))
            k.append(('linear', curve, seg, 1))
    for c, r in zip(k, report.pmap('checks.c08', 'kernel_worker', k)):
        report.merge_worker(out, r, part='%s %s' % ('K time kernel' if c[0] == 'kernel' else 'U linearity', c[1]))
    mm = [(c, (0, 1, 2) if quick else (0, 1, 2, 3, 4)) for c in DOMAINS]
    for c, r in zip(mm, report.pmap('checks.c08', 'measure_worker', mm)):
        report.merge_worker(out, r, part='V measure %s' % c[0])
    rr = [3, 4] if quick else [3, 4, 5, 6]
    for c, r in zip(rr, report.pmap('checks.c08', 'rule_worker', rr)):
        report.merge_worker(out, r, part='R rules held by the operator')
    out.bounds = dict(domains=list(DOMAINS), segment_levels=sorted(set(l for _, l in g)),
                      time='symbolic reals 0 <= a < b < c', u0='uninterpreted function of the point', quad_int=1,
                      rule_orders=rr)
    out.outside = ['the 1e-5 agreement with closed-form potentials', 'additivity under space splits (two different domain '
                   'meshes)', 'pointwise Gauss evaluation (InitialOperator.evaluate)', 'quad_int = 12 for the symbolic part']
    out.assumptions = ['E1 uninterpreted (V: replaced by the constant 4*pi, which makes the time-integrated kernel 1)', 'np.isclose modelled by its documented formula if reached',
                       'math.isclose modelled (|a-b| <= max(rel*max(|a|,|b|), abs))']
    out.coverage['exhaustive'] = not out.inconclusive
    out.coverage['rule'] = 'G: every dyadic segment of the stated levels; K/U: every ordering / case of the symbolic times'
