"""C14: Slobodeckij seminorm quadratures are exact on polynomials and invariant.

The real Slobodeckij class is executed (rules as exact rationals of the tabulated doubles):
 I  invariances as polynomial identities with a symbolic interval [a, a + r^2] (so that h**(1/2) = r is algebraic),
    symbolic polynomial coefficients, symbolic shift s and factor lam, for small orders: translation invariance,
    quadratic scaling, vanishing on constants, flat = curve-aware on the four axis directions of a straight segment,
    homogeneity S(x^i; 0, h) = h^(2i+1/2) S(x^i; 0, 1) resp. h^(2i); two collinear pieces of *different* length give the
    same value as the single union interval (two-piece variant).
 N  non-negativity: every weight of semi_1_4_weights / semi_1_2_weights is positive (ground facts) for all orders.
 E  exactness: for every order N in {1,3,...,21} (and 23 for H^{1/4}) and all i <= j <= (N-1)/2 the value on
    f = x^i + x^j over [0,1] equals the closed form (rational: binomial expansion) within 1e-12 - ground rational
    facts decided by z3; with I (translation, homogeneity) this is the statement for every interval.
The corner case against an independent graded reference is a numerical comparison and is not decided."""
import importlib
import math
from fractions import Fraction

import numpy as np
import z3

from vf import models, report, slsym
from vf.sym import Engine, Inconclusive, SR, z3bool

LEVEL = 'other'
TOL = Fraction(1, 10**12)


def load():
    NM = importlib.import_module('src.norms')
    Q = importlib.import_module('src.quadrature')
    Q.np = models.NpProxy(dict(array=models.array_model))
    NM.np = models.NpProxy(dict(array=models.array_model, all=models.all_model))
    return NM, Q


def exact_slobodeckij(NM, Q, n14, n12):
    """Slobodeckij(n14, n12) built by the real constructor on rules whose nodes/weights are exact rationals."""
    real = (Q.gauss_quadrature_scheme, Q.gauss_sqrtinv_quadrature_scheme, Q.gauss_x_quadrature_scheme)

    def ex(fn):
        def g(n):
            s = fn(n)
            return Q.QuadScheme1D(slsym.exact_array(s.points), slsym.exact_array(s.weights))
        return g
    NM.gauss_quadrature_scheme, NM.gauss_sqrtinv_quadrature_scheme, NM.gauss_x_quadrature_scheme = map(ex, real)
    try:
        return NM.Slobodeckij(n14, n12)
    finally:
        NM.gauss_quadrature_scheme, NM.gauss_sqrtinv_quadrature_scheme, NM.gauss_x_quadrature_scheme = real


def poly(coefs):
    def f(x, gamma=None):
        v = x * 0
        for k, c in enumerate(coefs):
            v = v + c * (x**k if k else x * 0 + 1)
        return v
    return f


def B12(i, j):
    """int int (x^i - y^i)(x^j - y^j)/(x-y)^2 over [0,1]^2."""
    tot = Fraction(0)
    for k in range(i):
        for l in range(j):
            tot += Fraction(1, (k + l + 1) * (i + j - 1 - k - l))
    return tot


def B14(i, j):
    """int int (x^i - y^i)(x^j - y^j)/|x-y|^(3/2) over [0,1]^2 = 2/(i+j+1/2) * sum_k c_k/(k-1/2), with
    (1-(1-u)^i)(1-(1-u)^j) = sum_k c_k u^k."""
    def one_minus_pow(n):
        # coefficients of 1 - (1-u)^n in u
        c = [Fraction(0)] * (n + 1)
        for k in range(1, n + 1):
            c[k] = -Fraction(math.comb(n, k)) * (-1)**k
        return c
    p, q = one_minus_pow(i), one_minus_pow(j)
    c = [Fraction(0)] * (i + j + 1)
    for a, va in enumerate(p):
        for b, vb in enumerate(q):
            c[a + b] += va * vb
    J = sum(ck / (k - Fraction(1, 2)) for k, ck in enumerate(c) if ck != 0)
    return 2 / (i + j + Fraction(1, 2)) * J


# -- I: invariances ------------------------------------------------------------------------------------------
def invariance_run(eng, NM, Q, N, deg, fail):
    S = exact_slobodeckij(NM, Q, N, N)
    a, r, s, lam = eng.reals('a r s lam')
    eng.assume(r * r >= Fraction(1, 1000))   # the property's intervals: 1e-3 <= b - a <= 1e3
    eng.assume(r > 0)
    eng.assume(r * r <= 1000)
    h = r * r
    eng.register_sqrt(h, r)
    b = a + h
    cs = [eng.real('c%d' % k) for k in range(deg + 1)]
    f = poly(cs)
    n = [0]

    def same(x, y, what, rtol=None):
        n[0] += 1
        ok, _ = eng.prove_identity(x, y, what, rtol=rtol)
        if not ok:
            fail(what)
    for name, sem in (('H^{1/4}', S.seminorm_h_1_4), ('H^{1/2}', S.seminorm_h_1_2)):
        v = sem(f, a, b)
        shifted = lambda x, g=None: f(x - s)
        same(sem(shifted, a + s, b + s), v, '%s (order %d): translating function and interval together changes the value' %
             (name, N))
        scaled = lambda x, g=None: lam * f(x)
        same(sem(scaled, a, b), lam * lam * v, '%s (order %d): not quadratic in the function' % (name, N))
        const = lambda x, g=None: x * 0 + cs[0]
        same(sem(const, a, b), SR.const(0), '%s (order %d): does not vanish on constants' % (name, N))
        # homogeneity on monomials
        for i in range(1, deg + 1):
            mono = lambda x, g=None, i=i: x**i
            one = sem(mono, SR.const(0), SR.const(1))
            if name == 'H^{1/4}':
                eng.register_sqrt(SR.const(1), SR.const(1))
                same(sem(mono, SR.const(0), h), r**(4 * i + 1) * one, '%s (order %d): S(x^%d; 0, h) != h^(2i+1/2) S(x^%d; 0, 1)' %
                     (name, N, i, i))
            else:
                same(sem(mono, SR.const(0), h), h**(2 * i) * one, '%s (order %d): S(x^%d; 0, h) != h^(2i) S(x^%d; 0, 1)' %
                     (name, N, i, i))
    # flat = curve-aware on straight segments (four axis directions, symbolic start point)
    px, py = eng.reals('px py')
    flat = S.seminorm_h_1_2(f, a, b)
    for (dx, dy) in ((1, 0), (0, 1), (-1, 0), (0, -1)):
        def gamma(x_hat, dx=dx, dy=dy):
            x_hat = np.atleast_1d(x_hat)
            return np.array([[px + dx * (v - a) for v in x_hat], [py + dy * (v - a) for v in x_hat]], dtype=object)
        fg = lambda x_hat, g: f(x_hat)
        same(S.seminorm_h_1_2(fg, a, b, gamma), flat, 'H^{1/2} (order %d): curve-aware variant differs from the flat one on '
             'a straight segment with direction (%d,%d)' % (N, dx, dy))
    # the denominator is the Euclidean distance of the CURVE POINTS, not of the parameters: on a straight segment run
    # through with speed kappa (symbolic) the value is flat / kappa^2
    kappa = eng.real('kappa')
    eng.assume(kappa > 0)
    for (dx, dy) in ((Fraction(3, 5), Fraction(4, 5)), (Fraction(0), Fraction(-1))):
        def gamma_k(x_hat, dx=dx, dy=dy):
            x_hat = np.atleast_1d(x_hat)
            return np.array([[px + kappa * dx * (v - a) for v in x_hat], [py + kappa * dy * (v - a) for v in x_hat]],
                            dtype=object)
        fg = lambda x_hat, g: f(x_hat)
        same(S.seminorm_h_1_2(fg, a, b, gamma_k) * kappa * kappa, flat, 'H^{1/2} (order %d): on a straight segment '
             'traversed with speed kappa the curve-aware value is not flat / kappa^2 (the distance used is not the '
             'Euclidean distance of the curve points)' % N)
    # two collinear pieces of different length = the union interval (polynomial within the exactness range).
    # Concrete break points (the quotient (f(x)-f(y))^2/|x-y|^2 is only reduced for numeric denominators),
    # symbolic coefficients; holds up to the exactness of the tabulated doubles.
    lowdeg = poly(cs[:min(deg, (N - 1) // 2) + 1])
    flg = lambda x_hat, g: lowdeg(x_hat)
    if (N - 1) // 2 >= 1:
        for (p0, l1, l2) in ((Fraction(0), Fraction(1), Fraction(1, 2)), (Fraction(1, 4), Fraction(1, 4), Fraction(1)),
                             (Fraction(-2), Fraction(3), Fraction(1, 8)), (Fraction(5), Fraction(1, 2), Fraction(1, 2))):
            A, Bp, C = SR.const(p0), SR.const(p0 + l1), SR.const(p0 + l1 + l2)

            def g1(x_hat):
                x_hat = np.atleast_1d(x_hat)
                return np.array([[SR.lift(v) - A for v in x_hat], [SR.lift(v) * 0 for v in x_hat]], dtype=object)

            def g2(x_hat):
                x_hat = np.atleast_1d(x_hat)
                return np.array([[SR.lift(v) - A for v in x_hat], [SR.lift(v) * 0 for v in x_hat]], dtype=object)
            union = S.seminorm_h_1_2(lowdeg, A, C)
            same(S.seminorm_h_1_2_pw(flg, A, Bp, g1, Bp, C, g2), union,
                 'H^{1/2} two-piece variant (order %d): two collinear pieces of lengths %s and %s do not give the value '
                 'of the union interval' % (N, l1, l2), rtol=1e-10)
        # the two pieces carry INDEPENDENT parameters (both start at 0; the wrap-around pair of a closed polygon: the
        # first piece ends at L, the second starts at 0): the datum is given in the embedded coordinate, the value
        # must still be that of the union interval
        emb = lambda x_hat, g: lowdeg(g(x_hat)[0])
        for (l1, l2, s1, s2) in ((Fraction(1), Fraction(1, 2), Fraction(0), Fraction(0)),
                                 (Fraction(1, 4), Fraction(1), Fraction(15, 4), Fraction(0)),
                                 (Fraction(3, 2), Fraction(1, 8), Fraction(2), Fraction(7))):
            def h1(x_hat, s1=s1):
                x_hat = np.atleast_1d(x_hat)
                return np.array([[SR.lift(v) - s1 for v in x_hat], [SR.lift(v) * 0 for v in x_hat]], dtype=object)

            def h2(x_hat, s2=s2, l1=l1):
                x_hat = np.atleast_1d(x_hat)
                return np.array([[SR.lift(v) - s2 + l1 for v in x_hat], [SR.lift(v) * 0 for v in x_hat]], dtype=object)
            union = S.seminorm_h_1_2(lowdeg, SR.const(0), SR.const(l1 + l2))
            same(S.seminorm_h_1_2_pw(emb, SR.const(s1), SR.const(s1 + l1), h1, SR.const(s2), SR.const(s2 + l2), h2), union,
                 'H^{1/2} two-piece variant (order %d): two collinear pieces of lengths %s and %s with independent '
                 'parameters [%s, %s], [%s, %s] do not give the value of the union interval' %
                 (N, l1, l2, s1, s1 + l1, s2, s2 + l2), rtol=1e-10)
    return n[0]


def invariance_worker(case):
    N, deg = case
    NM, Q = load()
    eng = Engine(timeout_ms=60000)
    res = dict(stats=None, violations=[], inconclusive=[], samples=[], functions=[
        'src/norms.py:Slobodeckij.__init__', 'src/norms.py:Slobodeckij.seminorm_h_1_4',
        'src/norms.py:Slobodeckij.seminorm_h_1_2', 'src/norms.py:Slobodeckij.seminorm_h_1_2_pw'],
        evaluations=0, nontrivial=0)
    cands = []
    try:
        for pr in eng.explore(lambda: invariance_run(eng, NM, Q, N, deg, cands.append)):
            if pr.status == 'exc':
                cands.append('exception %r at %s' % (pr.exc, pr.tb[-1]))
            else:
                res['evaluations'] += pr.value
                res['nontrivial'] += pr.value
            for what in cands[:3]:
                rp = dict(kind='invariance', N=N, deg=deg, what=what)
                res['violations'].append(dict(signature='invariance:%s' % what.split(':')[0].split('(')[0].strip(),
                                              what=what, replay=rp, reproduced=replay(rp)))
            cands.clear()
        res['samples'].append(dict(order=N, polynomial_degree=deg))
    except Inconclusive as e:
        res['inconclusive'].append('invariance %r: %s' % (case, e))
    res['stats'] = eng.stats
    return res


# -- E, N: exactness and positivity -----------------------------------------------------------------------------
def exact_worker(N):
    case = N
    NM, Q = load()
    eng = Engine(timeout_ms=30000)
    res = dict(stats=None, violations=[], inconclusive=[], samples=[], functions=[
        'src/norms.py:Slobodeckij.__init__', 'src/norms.py:Slobodeckij.seminorm_h_1_4',
        'src/norms.py:Slobodeckij.seminorm_h_1_2', 'src/quadrature.py:gauss_sqrtinv_quadrature_scheme',
        'src/quadrature.py:gauss_x_quadrature_scheme'], evaluations=0, nontrivial=0)

    def viol(sig, what):
        rp = dict(kind='exact', N=list(case) if isinstance(case, (tuple, list)) else case, what=what)
        res['violations'].append(dict(signature='%s:N=%s' % (sig, case), what=what, replay=rp, reproduced=replay(rp)))
    prior = []
    if isinstance(N, (tuple, list)) and N and N[0] == 'after':
        # construction history: other objects were built earlier in this process; the last one must not inherit
        # anything from them (rules memoised per class, per module, per one of the two orders only, ...)
        _, prior, N = N
        N = tuple(N)
        for (p14, p12) in prior:
            try:
                exact_slobodeckij(NM, Q, p14, p12)
            except Exception:
                pass

    target = N

    def viol(sig, what):  # noqa: F811  (history cases carry the history into the replay)
        rp = dict(kind='exact', N=list(target) if isinstance(target, (tuple, list)) else target, what=what,
                  prior=[list(x) for x in prior])
        if prior:
            what = 'after constructing %s in the same process: %s' % (', '.join('Slobodeckij%s' % (tuple(x),) for x in prior), what)
        res['violations'].append(dict(signature='%s:N=%s' % (sig, case), what=what, replay=rp, reproduced=replay(rp)))
    try:
        pairN = N
        if isinstance(N, (tuple, list)):     # two different orders: each seminorm must use the rule of ITS order
            N, n12 = N
        else:
            n12 = N if N <= 21 else 21
        try:
            S = exact_slobodeckij(NM, Q, N, n12)
        except Exception as e:
            viol('construct', 'Slobodeckij(%d, %d) cannot be constructed: %r' % (N, n12, e))
            res['stats'] = eng.stats
            return res
        eng.register_sqrt(SR.const(1), SR.const(1))
        # positivity of the weights (ground)
        for nm in ('semi_1_4_weights', 'semi_1_2_weights'):
            w = getattr(S, nm)
            res['evaluations'] += 1
            ok, _ = eng.prove(z3.And([z3bool(SR.lift(x) > 0) for x in np.asarray(w).flat]), 'weights>0')
            if not ok:
                viol('weights', 'order %d: %s has a non-positive entry (the seminorm could become negative)' % (N, nm))
        d = (N - 1) // 2
        for name, sem, Bf, order in (('H^{1/4}', S.seminorm_h_1_4, B14, N), ('H^{1/2}', S.seminorm_h_1_2, B12, n12)):
            if name == 'H^{1/2}' and N > 21 and not isinstance(pairN, (tuple, list)):
                continue
            dd = (order - 1) // 2
            for i in range(0, dd + 1):
                for j in range(i, dd + 1):
                    f = lambda x, g=None, i=i, j=j: (x**i if i else x * 0 + 1) + (x**j if j else x * 0 + 1)
                    got = SR.lift(sem(f, SR.const(0), SR.const(1)))
                    want = Bf(i, i) + Bf(j, j) + 2 * Bf(i, j)
                    # the same polynomial on the shortest interval of the property's range, away from the origin:
                    # [7, 7 + 1/900] (sqrt(h) = 1/30 rational); closed form by translation and homogeneity
                    h_s, a_s = Fraction(1, 900), Fraction(7)
                    eng.register_sqrt(SR.const(h_s), SR.const(Fraction(1, 30)))
                    fs = lambda x, g=None, i=i, j=j: ((x - a_s)**i if i else x * 0 + 1) + ((x - a_s)**j if j else x * 0 + 1)
                    got_s = SR.lift(sem(fs, SR.const(a_s), SR.const(a_s + h_s)))
                    ex = Fraction(1, 30) if name == 'H^{1/4}' else Fraction(1)
                    want_s = (Bf(i, i) * h_s**(2 * i) + Bf(j, j) * h_s**(2 * j) + 2 * Bf(i, j) * h_s**(i + j)) * ex
                    if got_s.is_const():
                        gs = got_s.const_value()
                        res['evaluations'] += 1
                        ok_s, _ = eng.prove(z3bool(SR.const(abs(gs - want_s)) <= SR.const(TOL * max(abs(want_s), Fraction(1, 10**40)))),
                                            'exactness-short')
                        if not ok_s and want_s != 0:
                            viol('exactness-short:%s' % name, '%s order %d: (x-a)^%d + (x-a)^%d on [7, 7+1/900] gives %.15g, '
                                 'closed form %.15g' % (name, order, i, j, float(gs), float(want_s)))
                            break
                    res['evaluations'] += 1
                    res['nontrivial'] += 1
                    if not got.is_const():
                        viol('exactness', '%s order %d: value on x^%d + x^%d is not a number' % (name, order, i, j))
                        continue
                    gv = got.const_value()
                    ok, _ = eng.prove(z3bool(SR.const(abs(gv - want)) <= SR.const(TOL * max(abs(want), Fraction(1, 10**6)))),
                                      'exactness')
                    if not ok:
                        viol('exactness:%s' % name, '%s order %d: x^%d + x^%d on [0,1] gives %.15g, closed form %.15g' %
                             (name, order, i, j, float(gv), float(want)))
                        break
                else:
                    continue
                break
        res['samples'].append(dict(order=pairN, max_degree=d, gram_entries=(d + 1) * (d + 2) // 2))
    except Inconclusive as e:
        res['inconclusive'].append('exactness N=%s: %s' % (N, e))
    res['stats'] = eng.stats
    return res


def replay(rp):
    """Floats on the unmodified module against mpmath-free closed forms / direct comparison."""
    NM = importlib.import_module('src.norms')
    Q = importlib.import_module('src.quadrature')
    saved = (NM.np, Q.np)
    NM.np, Q.np = np, np
    try:
        if rp['kind'] == 'exact':
            N = rp['N']
            if isinstance(N, (tuple, list)):
                N, N12 = N
            else:
                N12 = min(N, 21)
            for (p14, p12) in rp.get('prior') or []:
                try:
                    NM.Slobodeckij(p14, p12)
                except Exception:
                    pass
            try:
                S = NM.Slobodeckij(N, N12)
            except Exception:
                return True
            if min(np.min(S.semi_1_4_weights), np.min(S.semi_1_2_weights)) <= 0:
                return True
            for name, sem, Bf, order in (('14', S.seminorm_h_1_4, B14, N), ('12', S.seminorm_h_1_2, B12, N12)):
                dd = (order - 1) // 2
                for i in range(dd + 1):
                    for j in range(i, dd + 1):
                        f = lambda x, g=None: x**i + x**j
                        got = float(sem(f, 0.0, 1.0))
                        want = float(Bf(i, i) + Bf(j, j) + 2 * Bf(i, j))
                        if abs(got - want) > 1e-11 * max(abs(want), 1e-6):
                            return True
                        h_s, a_s = 1.0 / 900, 7.0
                        # in doubles the constant of 1 + (x-a)^j swallows (x-a)^j on this short interval (1e-3^j against
                        # 1): the float witness drops the constant (the seminorm of a constant and its cross terms are 0 in
                        # the closed form), otherwise rounding alone "reproduces" any candidate
                        fs = (lambda x, g=None: (x - a_s)**i + (x - a_s)**j) if i else (lambda x, g=None: (x - a_s)**j + 0 * x)
                        got_s = float(sem(fs, a_s, a_s + h_s))
                        ex = (1.0 / 30) if name == '14' else 1.0
                        want_s = float(Bf(i, i)) * h_s**(2 * i) * ex + float(Bf(j, j)) * h_s**(2 * j) * ex + \
                            2 * float(Bf(i, j)) * h_s**(i + j) * ex
                        if want_s != 0 and abs(got_s - want_s) > 1e-9 * abs(want_s):
                            return True
            return False
        # invariances: concrete numbers
        N, deg = rp['N'], rp['deg']
        S = NM.Slobodeckij(N, N)
        cs = [0.7, -1.3, 0.45, 2.1, -0.6][:deg + 1]
        f = lambda x, g=None: sum(c * x**k for k, c in enumerate(cs))
        a, h, s, lam = 0.3, 0.64, 1.7, -2.5
        bad = False
        for sem in (S.seminorm_h_1_4, S.seminorm_h_1_2):
            v = sem(f, a, a + h)
            bad |= abs(sem(lambda x, g=None: f(x - s), a + s, a + h + s) - v) > 1e-9 * abs(v)
            bad |= abs(sem(lambda x, g=None: lam * f(x), a, a + h) - lam * lam * v) > 1e-9 * abs(v)
            bad |= abs(sem(lambda x, g=None: 0 * x + 1.5, a, a + h)) > 1e-12
        for i in range(1, deg + 1):
            m = lambda x, g=None: x**i
            bad |= abs(S.seminorm_h_1_4(m, 0.0, h) - h**(2 * i + 0.5) * S.seminorm_h_1_4(m, 0.0, 1.0)) > 1e-9
            bad |= abs(S.seminorm_h_1_2(m, 0.0, h) - h**(2 * i) * S.seminorm_h_1_2(m, 0.0, 1.0)) > 1e-9
        flat = S.seminorm_h_1_2(f, a, a + h)
        for (dx, dy) in ((1, 0), (0, 1), (-1, 0), (0, -1)):
            gamma = lambda xh: np.vstack([0.2 + dx * (np.atleast_1d(xh) - a), -0.4 + dy * (np.atleast_1d(xh) - a)])
            bad |= abs(S.seminorm_h_1_2(lambda xh, g: f(xh), a, a + h, gamma) - flat) > 1e-9 * abs(flat)
        for (dx, dy, kap) in ((0.6, 0.8, 2.0), (0.0, -1.0, 0.25)):
            gamma = lambda xh: np.vstack([0.2 + kap * dx * (np.atleast_1d(xh) - a), -0.4 + kap * dy * (np.atleast_1d(xh) - a)])
            bad |= abs(S.seminorm_h_1_2(lambda xh, g: f(xh), a, a + h, gamma) * kap * kap - flat) > 1e-9 * abs(flat)
        if (N - 1) // 2 >= 1:
            low = cs[:min(deg, (N - 1) // 2) + 1]
            fl = lambda x, g=None: sum(c * x**k for k, c in enumerate(low))
            g1 = lambda xh: np.vstack([np.atleast_1d(xh) - a, 0 * np.atleast_1d(xh)])
            g2 = lambda xh: np.vstack([np.atleast_1d(xh) - a, 0 * np.atleast_1d(xh)])
            k2 = 0.23
            u = S.seminorm_h_1_2(fl, a, a + h + k2)
            pw = S.seminorm_h_1_2_pw(lambda xh, g: fl(xh), a, a + h, g1, a + h, a + h + k2, g2)
            bad |= abs(pw - u) > 1e-9 * abs(u)
            # independent parameters: first piece on [3.75, 3.75 + h], second on [0, k2]
            s1 = 3.75
            h1 = lambda xh: np.vstack([np.atleast_1d(xh) - s1, 0 * np.atleast_1d(xh)])
            e1 = (s1 + h) - s1   # the embedded end of the first piece exactly as g1 computes it (the routine asserts
            #                      gamma_1(b_1) == gamma_2(a_2) bit for bit)
            h2 = lambda xh: np.vstack([np.atleast_1d(xh) + e1, 0 * np.atleast_1d(xh)])
            u0 = S.seminorm_h_1_2(fl, 0.0, e1 + k2)
            pw = S.seminorm_h_1_2_pw(lambda xh, g: fl(g(xh)[0]), s1, s1 + h, h1, 0.0, k2, h2)
            bad |= abs(pw - u0) > 1e-9 * abs(u0)
        return bool(bad)
    except Exception:
        return True
    finally:
        NM.np, Q.np = saved


def run(out):
    quick = out.tier == 'quick'
    inv = [(1, 1), (3, 2), (5, 2)] if quick else [(1, 1), (3, 2), (5, 2), (7, 3)]
    for c, r in zip(inv, report.pmap('checks.c14', 'invariance_worker', inv)):
        report.merge_worker(out, r, part='I invariances (symbolic interval)')
    orders = list(range(1, 24, 2)) + [(7, 3), (3, 7)] + ([] if quick else [(11, 5), (5, 11), (23, 1), (1, 21)])
    # construction histories in one process: same first order / same second order / both seen before
    orders += [('after', [(3, 3)], (3, 9)), ('after', [(3, 3)], (9, 3)), ('after', [(5, 7), (7, 5)], (5, 5))]
    if not quick:
        orders += [('after', [(3, None), (21, 3)], (21, 21)), ('after', [(11, 11), (3, 11), (11, 3)], (3, 3))]
    for c, r in zip(orders, report.pmap('checks.c14', 'exact_worker', orders)):
        report.merge_worker(out, r, part='E exactness / N positivity')
    out.bounds = dict(invariance_orders=[c[0] for c in inv], polynomial_degree=[c[1] for c in inv],
                      interval='symbolic [a, a + r^2], r > 0', exactness_orders=orders,
                      exactness='f = x^i + x^j, i <= j <= (N-1)/2, on [0,1], 1e-12 relative')
    out.outside = ['two straight pieces meeting in a corner against an independent graded reference',
                   'invariances for orders above the listed ones (the rules enter only through their nodes and weights, '
                   'but the polynomial identities are decided for the listed orders only)']
    out.assumptions = ['rules as exact rationals of the tabulated doubles; h = r^2 with sqrt(h) = r',
                       'closed forms for the Gram entries derived in checks/c14.py (binomial expansion)']
    out.coverage['exhaustive'] = not out.inconclusive
    out.coverage['rule'] = 'identities per listed order; Gram entries for every order and every i <= j in the exactness range'
