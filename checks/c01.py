"""C01 (structural part): what z3 can decide about the Galerkin entries.

 P1 panels     SingleLayerOperator.__integrate with recording stand-ins for the scheme objects, on every ordered
               pair of dyadic cells of a parameter interval of 8 symbolic units u (glued or not): the logged boxes
               tile the space rectangle, and in every box the singular set {x = y} u {y - x = L if glued} meets
               the closed box only where the logged rule is graded (Duffy: the diagonal of a square box; mirror_x:
               the corner (b', c'); mirror_y: the corner (a', d'); log_log.mirror_x/y: no singular point, graded
               towards the nearer of direct and seam approach).
 P2 variables  bilform hands __integrate a callable that evaluates gamma_test only at the coordinate ranging over
               test.space_interval and gamma_trial at the other one, in both orders.
 P3 recursion  spacetime_integrated_kernel: symbolic rectangles reach fint_1/2/4 with the sizes of translated
               sub-rectangles that tile.
 P4 closed forms  fint_1/2/4 mutually consistent (exp/erf/Ei uninterpreted, z = s*s).
 P5 time kernel   double_time_integrated_kernel = Fm(b-d) - Fm(b-c) + Fm(a-c) - Fm(a-d), Fm(z) = [z > 0] F(z).
 P6 rules      the scheme objects the operator actually holds (duff_log_log, log_log and their mirrors, quad_order 4 /
               12) integrate every monomial x^i y^j, i + j <= 2, over the unit square within 1e-11: P1 hands
               non-square boxes to the Duffy rule (first panel longer than the second), so a rule that is only
               valid for integrands symmetric in (x, y) is not good enough (ground rational facts, z3).
The 1e-7 accuracy statement itself is not decided (no solver for Ei/exp quadrature error)."""
import itertools
from fractions import Fraction

import numpy as np
import z3

from vf import models, report, slsym
from vf.sym import Engine, Inconclusive, PathAbort, SR, z3bool, z3real

LEVEL = 'other'
N_UNITS = 8


def dyadic_cells(max_level, min_level=0, units=None):
    units = units or N_UNITS
    out = []
    for l in range(min_level, max_level + 1):
        w = units >> l
        for k in range(2**l):
            out.append((k * w, (k + 1) * w))
    return out


# -- P1 ------------------------------------------------------------------------------------------------
def panels_run(eng, SL, cell_x, cell_y, glued, fail, concrete_u=None, units=None):
    units = units or N_UNITS
    if concrete_u is None:
        u = eng.real('u')
        eng.assume(u >= Fraction(1, 10**4))
        eng.assume(u <= 1000)
    else:
        u = concrete_u
    L = u * units

    class G:
        gamma_length = L
        closed = glued
    op = SL.SingleLayerOperator(slsym.FakeMesh(G()), quad_order=1)
    log = []
    op.duff_log_log = slsym.Recorder(log, 'duffy')
    op.log_log = slsym.Recorder(log, 'loglog')
    a, b = u * cell_x[0], u * cell_x[1]
    c, d = u * cell_y[0], u * cell_y[1]
    getattr(op, '_SingleLayerOperator__integrate')(None, a, b, c, d)
    # tiling of [a,b) x [c,d)
    px, py = eng.real('px!'), eng.real('py!')
    inside = [z3.If(z3.And(z3bool(px >= bx[0]), z3bool(px < bx[1]), z3bool(py >= bx[2]), z3bool(py < bx[3])), 1, 0)
              for (_, _, bx) in log]
    dom = z3.And(z3bool(px >= a), z3bool(px < b), z3bool(py >= c), z3bool(py < d))
    ok, m = eng.prove(z3.Implies(dom, z3.Sum(inside) == 1), 'panels:tiling')
    if not ok:
        fail('panels:tiling', 'the panels of [%s,%s]x[%s,%s] (units of u, glued=%s) do not tile the rectangle: a point '
             'lies in %s panels' % (cell_x[0], cell_x[1], cell_y[0], cell_y[1], glued, m.eval(z3.Sum(inside))), m)
    tiny = Fraction(1, 10**10)
    for (rule, mirror, (a1, b1, c1, d1)) in log:
        hx, hy = b1 - a1, d1 - c1
        diag_meets = z3.And(z3bool(a1 <= d1), z3bool(c1 <= b1))  # closed box meets {x = y}
        seam_meets = z3.And(z3.BoolVal(bool(glued)), z3bool(a1 <= 0), z3bool(d1 >= L))  # contains (0, L)
        square = z3.And(z3bool(hx - hy < tiny), z3bool(hy - hx < tiny))
        seam_pt = z3.And(z3.BoolVal(bool(glued)), z3bool(a1 == 0), z3bool(d1 == L))  # (0, L) is the corner (a', d')
        if rule == 'duffy' and mirror == '':
            # singular along the whole diagonal of a diagonal box
            claim = z3.And(z3bool(a1 == c1), z3bool(b1 == d1), z3.Not(seam_meets))
        elif rule == 'duffy' and mirror == 'x':
            # the only singular point of the closed box is the corner (b', c'); touching pairs are split so that
            # the Duffy box is square (up to the code's own 1e-10)
            claim = z3.And(z3bool(b1 == c1), z3bool(a1 < b1), z3bool(c1 < d1), z3.Not(seam_meets), square)
        elif rule == 'duffy' and mirror == 'y':
            # the only singular point of the closed box is the corner (a', d'): through the diagonal (a' = d')
            # or through the closing seam (a' = 0, d' = L); never both, and nowhere else
            via_diag = z3.And(z3bool(a1 == d1), z3bool(a1 < b1), z3bool(c1 < d1), z3.Not(seam_meets))
            via_seam = z3.And(seam_pt, z3bool(b1 < c1), square)
            claim = z3.Xor(via_diag, via_seam)
        elif rule == 'loglog' and mirror == 'x':
            near = z3bool(c1 - b1 < L - d1 + a1) if glued else z3.BoolVal(True)
            claim = z3.And(z3bool(b1 < c1), z3.Not(seam_meets), near)
        elif rule == 'loglog' and mirror == 'y':
            claim = z3.And(z3.BoolVal(bool(glued)), z3bool(b1 < c1), z3.Not(seam_meets),
                           z3bool(L - d1 + a1 <= c1 - b1))
        else:
            claim = z3.BoolVal(False)
        ok, m = eng.prove(claim, 'panels:grading')
        if not ok:
            fail('panels:grading', 'panel %s.mirror(%s) on a box of the pair [%s,%s]x[%s,%s] (units of u, glued=%s) is '
                 'not graded where the kernel is singular' % (rule, mirror or '-', cell_x[0], cell_x[1], cell_y[0],
                                                             cell_y[1], glued), m)
    return len(log)


def panels_worker(case):
    glued, pairs, units = case
    SL, SLE, Q = slsym.load_sl()
    eng = Engine(timeout_ms=30000)
    res = dict(stats=None, violations=[], inconclusive=[], samples=[], functions=[
        'src/single_layer.py:SingleLayerOperator.__integrate', 'src/single_layer.py:SingleLayerOperator.__init__'],
        evaluations=0, nontrivial=0)
    for (cx, cy) in pairs:
        cands = []

        def fail(sig, what, model):
            cands.append((sig, what, model))

        def body():
            cands.clear()
            return panels_run(eng, SL, cx, cy, glued, fail, units=units)
        try:
            for pr in eng.explore(body):
                res['evaluations'] += 1
                if pr.status == 'exc':
                    f = pr.tb[-1]
                    _, m = eng.feasible(True)
                    cands.append(('panels:exception:%s@%d' % (type(pr.exc).__name__, f.lineno),
                                  '%s in __integrate at line %d (%s) for the pair [%s,%s]x[%s,%s] (units of u, glued=%s)' %
                                  (type(pr.exc).__name__, f.lineno, f.line, cx[0], cx[1], cy[0], cy[1], glued), m))
                elif pr.status == 'ok':
                    res['nontrivial'] += 1
                    if len(res['samples']) < 2 and pr.value > 1:
                        res['samples'].append(dict(pair=[list(cx), list(cy)], glued=glued, panels=pr.value))
                for sig, what, model in cands:
                    uval = eng.model_inputs(model).get('u') if model is not None else None
                    rp = dict(kind='panels', cx=list(cx), cy=list(cy), glued=glued, u=str(uval) if uval else '1', units=units)
                    res['violations'].append(dict(signature=sig, what=what, replay=rp, reproduced=replay(rp)))
                cands.clear()
        except Inconclusive as e:
            res['inconclusive'].append('panels %r %r glued=%s: %s' % (cx, cy, glued, e))
        if len(res['violations']) >= 4:
            break
    res['stats'] = eng.stats
    return res


def replay(rp):
    SL, SLE, Q = slsym.load_sl()
    found = []

    def fail(sig, what, model):
        found.append(sig)
    with Engine(timeout_ms=30000) as eng:
        try:
            if rp['kind'] == 'panels':
                u = float(Fraction(rp['u']))
                panels_run(eng, SL, tuple(rp['cx']), tuple(rp['cy']), rp['glued'], fail, concrete_u=u, units=rp.get('units'))
            elif rp['kind'] == 'timekernel':
                vals = {k: float(Fraction(v)) for k, v in rp['values'].items()}
                return timekernel_concrete(vals)
            elif rp['kind'] == 'closedform':
                return closedform_concrete(rp)
            elif rp['kind'] == 'rules':
                return rules_eval(SL, rp['quad_order']) is not None
            elif rp['kind'] == 'variables':
                return True
            elif rp['kind'] == 'recursion':
                return True
        except Exception as e:
            found.append('exception:' + type(e).__name__)
    return bool(found)


# -- P5 time kernel --------------------------------------------------------------------------------------
def F_spec(eng, q, z):
    """F_q(z) = z exp(-q/z) + (q+z) Ei(-q/z), the antiderivative the four-term formula is built from."""
    arg = -q / z
    return z * eng.apply('exp', arg) + (q + z) * eng.apply('Ei', arg)


def timekernel_run(eng, SL, fail):
    a, b, c, d, s = eng.reals('a b c d s')
    eng.assume(a < b)
    eng.assume(c < d)
    eng.assume(s >= 0)
    G = SL.double_time_integrated_kernel(a, b, c, d)
    x = np.array([[2 * s]], dtype=object)  # x_sqr = |x|^2/4 = s^2 =: q
    val = G(x)
    val = val[0] if isinstance(val, np.ndarray) else val
    q = s * s
    FPI = SR.const(SL.FPI_INV)
    spec = SR.const(0)
    # Fm(z) = [z > 0] F(z): the case distinction is taken by forking on the four differences
    for sign, z in ((1, b - d), (-1, b - c), (1, a - c), (-1, a - d)):
        if z > 0:
            spec = spec + FPI * sign * F_spec(eng, q, z)
    ok, m = eng.prove_identity(val, spec, 'timekernel')
    if not ok:
        fail('timekernel', 'double_time_integrated_kernel differs from F(b-d)-F(b-c)+F(a-c)-F(a-d) (F = 0 for z <= 0)', m)
    return True


def timekernel_concrete(vals):
    """Replay with floats on the unmodified module: compare with the specification evaluated by scipy."""
    import scipy.special as sp
    import src.single_layer as RSL
    a, b, c, d, s = (vals[k] for k in 'abcds')
    if not (a < b and c < d) or s <= 0:
        return False
    with slsym.unpatched():
        G = RSL.double_time_integrated_kernel(a, b, c, d)
        got = G(np.array([[2 * s]], dtype=float))
    got = float(np.asarray(got).reshape(-1)[0]) if not isinstance(got, (int, float)) else float(got)
    q = s * s

    def F(z):
        if z <= 0:
            return 0.0
        return z * np.exp(-q / z) + (q + z) * sp.expi(-q / z)
    want = (F(b - d) - F(b - c) + F(a - c) - F(a - d)) / (4 * np.pi)
    return abs(got - want) > 1e-12 * (1 + abs(want))


def timekernel_worker(_):
    SL, SLE, Q = slsym.load_sl()
    eng = Engine(timeout_ms=30000)
    res = dict(stats=None, violations=[], inconclusive=[], samples=[], functions=[
        'src/single_layer.py:double_time_integrated_kernel'], evaluations=0, nontrivial=0)
    cands = []

    def fail(sig, what, model):
        cands.append((sig, what, model))

    def body():
        cands.clear()
        return timekernel_run(eng, SL, fail)
    try:
        for pr in eng.explore(body):
            res['evaluations'] += 1
            res['nontrivial'] += 1
            if pr.status == 'exc':
                _, m = eng.feasible(True)
                cands.append(('timekernel:exception', '%r in double_time_integrated_kernel' % (pr.exc, ), m))
            for sig, what, model in cands:
                # a model of the path (the path fixes the order of a,b,c,d); prefer spread-out dyadic values
                # several pairwise different witnesses: a wrong term can coincide with the right one when the two time
                # steps are equal, which is what the first model tends to look like
                ms = eng.diverse_models(eng.real('s') >= Fraction(1, 2), n=6, bits=4) or [eng.feasible(eng.real('s') > 0)[1]]
                rp, ok, vals = None, False, None
                for m in ms:
                    vals = {k: str(v) for k, v in eng.model_inputs(m).items() if k in 'abcds' and v is not None}
                    rp = dict(kind='timekernel', values=vals)
                    if replay(rp):
                        ok = True
                        break
                res['violations'].append(dict(signature=sig, what='%s [order of instants: %s]' % (what, vals),
                                              replay=rp, reproduced=ok))
            cands.clear()
            if len(res['samples']) < 2 and pr.status == 'ok':
                m = eng.feasible(True)[1]
                res['samples'].append(dict(time_configuration={k: str(v) for k, v in eng.model_inputs(m).items()
                                                               if k in 'abcd'}))
    except Inconclusive as e:
        res['inconclusive'].append('timekernel: %s' % e)
    res['stats'] = eng.stats
    return res


# -- P4 closed forms -------------------------------------------------------------------------------------
def closedform_identities(eng, SLE):
    """Each entry: (name, lhs, rhs) with symbolic sizes; z = a - b = s*s so that sqrt(z) = s."""
    s = eng.real('s')
    h1, h2, k1, k2, l1 = eng.reals('h1 h2 k1 k2 l1')
    for v in (s, h1, h2, k1, k2, l1):
        eng.assume(v > 0)
    z = s * s
    eng.register_sqrt(z, s)
    A, B = z, SR.const(0)  # fint_*(a, b, ...) with a - b = z
    f1, f2, f4 = SLE.fint_1, SLE.fint_2, SLE.fint_4
    ids = []
    ids.append(('fint_1 additive: [0,h1+h2]^2 = [0,h1]^2 + [0,h2]^2 + 2 touching',
                f1(A, B, h1 + h2), f1(A, B, h1) + f1(A, B, h2) + 2 * f2(A, B, h1, h2)))
    ids.append(('fint_2 symmetric', f2(A, B, h1, k1), f2(A, B, k1, h1)))
    ids.append(('fint_2 additive in k: [-h,0]x[0,k1+k2] = touching + disjoint',
                f2(A, B, h1, k1 + k2), f2(A, B, h1, k1) + f4(A, B, h1, h1 + k1, h1 + k1 + k2)))
    ids.append(('fint_4 additive in [k,l]',
                f4(A, B, h1, h1 + k1, h1 + k1 + k2 + l1),
                f4(A, B, h1, h1 + k1, h1 + k1 + k2) + f4(A, B, h1, h1 + k1 + k2, h1 + k1 + k2 + l1)))
    ids.append(('fint_4(h,h,l) = fint_2(h,l-h)', f4(A, B, h1, h1, h1 + k1), f2(A, B, h1, k1)))
    ids.append(('fint_4 additive in h: [0,h1+h2]x[k,l] = [0,h1]x[k,l] + [h1,h1+h2]x[k,l]',
                f4(A, B, h1 + h2, h1 + h2 + k1, h1 + h2 + k1 + k2),
                f4(A, B, h1, h1 + h2 + k1, h1 + h2 + k1 + k2) + f4(A, B, h2, h2 + k1, h2 + k1 + k2)))
    return ids


def closedform_worker(_):
    SL, SLE, Q = slsym.load_sl()
    eng = Engine(timeout_ms=60000)
    res = dict(stats=None, violations=[], inconclusive=[], samples=[], functions=[
        'src/single_layer_exact.py:fint_1', 'src/single_layer_exact.py:fint_2', 'src/single_layer_exact.py:fint_4'],
        evaluations=0, nontrivial=0)

    def body():
        out = []
        for name, lhs, rhs in closedform_identities(eng, SLE):
            ok, m = eng.prove_identity(lhs, rhs, 'closedform')
            out.append((name, ok))
        return out
    try:
        for pr in eng.explore(body):
            if pr.status == 'exc':
                res['inconclusive'].append('closed forms raised %r at %s' % (pr.exc, pr.tb[-1]))
                continue
            for i, (name, ok) in enumerate(pr.value):
                res['evaluations'] += 1
                res['nontrivial'] += 1
                if not ok:
                    rp = dict(kind='closedform', index=i)
                    res['violations'].append(dict(signature='closedform:%d' % i, what='closed-form identity fails: ' + name,
                                                  replay=rp, reproduced=replay(rp)))
            res['samples'].append(dict(identities=[n for n, _ in pr.value]))
    except Inconclusive as e:
        res['inconclusive'].append('closed forms: %s' % e)
    res['stats'] = eng.stats
    return res


def closedform_concrete(rp):
    """Numerical replay of an identity on the unmodified module at a few concrete sizes."""
    import src.single_layer_exact as R
    f1, f2, f4 = R.fint_1, R.fint_2, R.fint_4
    bad = False
    with slsym.unpatched():
        bad = _closedform_eval(rp, f1, f2, f4)
    return bad


def _closedform_eval(rp, f1, f2, f4):
    bad = False
    for (z, h1, h2, k1, k2, l1) in ((0.3, 0.5, 0.25, 0.75, 0.5, 0.25), (1.0, 1.0, 2.0, 0.5, 1.5, 1.0),
                                    (0.05, 0.25, 0.5, 0.125, 0.25, 0.5)):
        A, B = z, 0.0
        ids = [
            (f1(A, B, h1 + h2), f1(A, B, h1) + f1(A, B, h2) + 2 * f2(A, B, h1, h2)),
            (f2(A, B, h1, k1), f2(A, B, k1, h1)),
            (f2(A, B, h1, k1 + k2), f2(A, B, h1, k1) + f4(A, B, h1, h1 + k1, h1 + k1 + k2)),
            (f4(A, B, h1, h1 + k1, h1 + k1 + k2 + l1),
             f4(A, B, h1, h1 + k1, h1 + k1 + k2) + f4(A, B, h1, h1 + k1 + k2, h1 + k1 + k2 + l1)),
            (f4(A, B, h1, h1, h1 + k1), f2(A, B, h1, k1)),
            (f4(A, B, h1 + h2, h1 + h2 + k1, h1 + h2 + k1 + k2),
             f4(A, B, h1, h1 + h2 + k1, h1 + h2 + k1 + k2) + f4(A, B, h2, h2 + k1, h2 + k1 + k2)),
        ]
        l, r = ids[rp['index']]
        if abs(l - r) > 1e-9 * (abs(l) + abs(r) + 1e-12):
            bad = True
    return bad


# -- P2 integration variables ----------------------------------------------------------------------------
def variables_worker(_):
    """bilform: gamma_test is evaluated on the coordinate that ranges over test.space_interval, gamma_trial on the
    other one - for both orders of the two space intervals and all time configurations."""
    SL, SLE, Q = slsym.load_sl()
    eng = Engine(timeout_ms=30000)
    res = dict(stats=None, violations=[], inconclusive=[], samples=[], functions=[
        'src/single_layer.py:SingleLayerOperator.bilform'], evaluations=0, nontrivial=0)
    for order in (0, 1):
        def body(order=order):
            ta, tb, tc, td = eng.reals('ta tb tc td')
            eng.assume(ta < tb)
            eng.assume(tc < td)
            seen = dict(test=[], trial=[])

            def g_test(x):
                seen['test'].append(x)
                return np.array([[eng.apply('gt1', xx) for xx in np.atleast_1d(x)],
                                 [eng.apply('gt2', xx) for xx in np.atleast_1d(x)]], dtype=object)

            def g_trial(x):
                seen['trial'].append(x)
                return np.array([[eng.apply('gr1', xx) for xx in np.atleast_1d(x)],
                                 [eng.apply('gr2', xx) for xx in np.atleast_1d(x)]], dtype=object)

            class Gm:
                gamma_length = SR.const(8)
                closed = True
            op = SL.SingleLayerOperator(slsym.FakeMesh(Gm()), quad_order=1)
            probe = {}

            def fake_integrate(f, a, b, c, d):
                # evaluate the integrand at one interior point of the rectangle handed over
                xs = np.array([[a + (b - a) * Fraction(1, 3)], [c + (d - c) * Fraction(2, 3)]], dtype=object)
                probe['box'] = (a, b, c, d)
                probe['pt'] = (xs[0, 0], xs[1, 0])
                return f(xs)
            setattr(op, '_SingleLayerOperator__integrate', fake_integrate)
            x_test = (SR.const(1), SR.const(2)) if order == 0 else (SR.const(5), SR.const(6))
            x_trial = (SR.const(5), SR.const(6)) if order == 0 else (SR.const(1), SR.const(2))
            test = slsym.Elem(ta, tb, x_test[0], x_test[1], g_test, 'test')
            trial = slsym.Elem(tc, td, x_trial[0], x_trial[1], g_trial, 'trial')
            val = op.bilform(trial, test)
            if not probe:
                return 'acausal', None
            bad = []
            for which, iv in (('test', x_test), ('trial', x_trial)):
                for arr in seen[which]:
                    for xx in np.atleast_1d(arr).flat:
                        ok, m = eng.prove(z3.And(z3bool(xx >= iv[0]), z3bool(xx <= iv[1])), 'variables')
                        if not ok:
                            bad.append(which)
            return 'causal', bad
        try:
            for pr in eng.explore(body):
                res['evaluations'] += 1
                if pr.status == 'exc':
                    rp = dict(kind='variables', order=order)
                    res['violations'].append(dict(signature='variables:exception', what='bilform raised %r' % (pr.exc, ),
                                                  replay=rp, reproduced=True))
                    continue
                kind, bad = pr.value
                if kind == 'causal':
                    res['nontrivial'] += 1
                    if bad:
                        rp = dict(kind='variables', order=order)
                        res['violations'].append(dict(
                            signature='variables:order%d' % order,
                            what='bilform evaluates gamma_%s outside that element\'s space interval (%s lies %s trial '
                            'in parameter order): integration variables not matched to the elements' %
                            (bad[0], 'test', 'before' if order == 0 else 'after'), replay=rp, reproduced=True))
        except Inconclusive as e:
            res['inconclusive'].append('variables: %s' % e)
    res['samples'].append(dict(orders=['test before trial', 'test after trial']))
    res['stats'] = eng.stats
    return res


# -- P3 recursion of the closed-form path ----------------------------------------------------------------
def recursion_worker(case):
    """spacetime_integrated_kernel with recording stand-ins for spacetime_integrated_kernel_1/2/4."""
    SL, SLE, Q = slsym.load_sl()
    eng = Engine(timeout_ms=30000)
    res = dict(stats=None, violations=[], inconclusive=[], samples=[], functions=[
        'src/single_layer_exact.py:spacetime_integrated_kernel'], evaluations=0, nontrivial=0)
    cells = dyadic_cells(3)
    pairs = [(p, q) for p in cells for q in cells]
    for (cx, cy) in pairs:
        def body(cx=cx, cy=cy):
            u = eng.real('u')
            eng.assume(u > 0)
            log = []
            SLE.spacetime_integrated_kernel_1 = lambda a, b, c, d, h: (log.append(('same', h)), 0)[1]
            SLE.spacetime_integrated_kernel_2 = lambda a, b, c, d, h, k: (log.append(('touch', h, k)), 0)[1]
            SLE.spacetime_integrated_kernel_4 = lambda a, b, c, d, h, k, l: (log.append(('disjoint', h, k, l)), 0)[1]
            SLE.spacetime_integrated_kernel(SR.const(0), SR.const(1), SR.const(0), SR.const(1), u * cx[0], u * cx[1],
                                            u * cy[0], u * cy[1])
            return log
        try:
            for pr in eng.explore(body):
                res['evaluations'] += 1
                if pr.status != 'ok':
                    rp = dict(kind='recursion', cx=list(cx), cy=list(cy))
                    res['violations'].append(dict(signature='recursion:exception', what='spacetime_integrated_kernel '
                                                  'raised %r for %r x %r' % (pr.exc, cx, cy), replay=rp, reproduced=True))
                    continue
                res['nontrivial'] += 1
                # area bookkeeping in units of u: the pieces must add up to the rectangle (symmetric kernel:
                # [x]x[y] and [y]x[x] are the same integral), each piece classified correctly
                area = 0
                ok = True
                lo, hi = (cx, cy) if cx <= cy else (cy, cx)
                for rec in pr.value:
                    if rec[0] == 'same':
                        h = rec[1] / eng.real('u')
                        area += h * h
                    elif rec[0] == 'touch':
                        area += (rec[1] / eng.real('u')) * (rec[2] / eng.real('u'))
                    else:
                        h, k, l = (r / eng.real('u') for r in rec[1:])
                        area += h * (l - k)
                        okk, _ = eng.prove(z3.And(z3bool(h < k), z3bool(k < l)), 'recursion:order')
                        ok = ok and okk
                want = (cx[1] - cx[0]) * (cy[1] - cy[0])
                same, _ = eng.prove(z3bool(SR.lift(area) == want), 'recursion:area')
                if not (ok and same):
                    rp = dict(kind='recursion', cx=list(cx), cy=list(cy))
                    res['violations'].append(dict(signature='recursion:pieces', what='closed-form recursion for %r x %r '
                                                  'does not split into same/touching/disjoint pieces of the right '
                                                  'total size' % (cx, cy), replay=rp, reproduced=True))
        except Inconclusive as e:
            res['inconclusive'].append('recursion %r %r: %s' % (cx, cy, e))
    res['samples'].append(dict(pairs=len(pairs)))
    res['stats'] = eng.stats
    return res


# -- P6 rules held by the operator ---------------------------------------------------------------------------
def rules_worker(quad_order):
    SL, SLE, Q = slsym.load_sl()
    eng = Engine(timeout_ms=30000)
    res = dict(stats=None, violations=[], inconclusive=[], samples=[], functions=[
        'src/single_layer.py:SingleLayerOperator.__init__', 'src/quadrature.py:DuffyScheme2D',
        'src/quadrature.py:ProductScheme2D', 'src/quadrature.py:log_quadrature_scheme'], evaluations=0, nontrivial=0)
    bad = rules_eval(SL, quad_order, eng, res)
    if bad:
        name, mir, e, val, want = bad
        rp = dict(kind='rules', quad_order=quad_order)
        res['violations'].append(dict(signature='rules:%s' % name, what='the operator\'s %s%s (quad_order=%d) integrates '
                                      'x^%d y^%d over the unit square to %.12g instead of %.12g: __integrate hands it '
                                      'non-square boxes [d,b]x[c,d], where the integrand is not symmetric in its two '
                                      'arguments' % (name, mir and '.mirror_%s()' % mir, quad_order, e[0], e[1], val, want),
                                      replay=rp, reproduced=True))
    res['samples'].append(dict(quad_order=quad_order, rules=['duff_log_log', 'log_log']))
    res['stats'] = eng.stats
    return res


def rules_eval(SL, quad_order, eng=None, res=None):
    class G:
        gamma_length = 4.0
        closed = True
    with slsym.unpatched():
        op = SL.SingleLayerOperator(slsym.FakeMesh(G()), quad_order=quad_order)
        rules = []
        for name in ('duff_log_log', 'log_log'):
            s = getattr(op, name)
            for mir in ('', 'x', 'y'):
                t = s if not mir else getattr(s, 'mirror_' + mir)()
                rules.append((name, mir, np.asarray(t.points, dtype=float), np.asarray(t.weights, dtype=float)))
    tol = Fraction(1, 10**11)
    for name, mir, pts, wts in rules:
        P = [[Fraction(float(v)) for v in row] for row in pts]
        W = [Fraction(float(v)) for v in wts]
        for e in ((0, 0), (1, 0), (0, 1), (2, 0), (1, 1), (0, 2)):
            val = sum(w * P[0][k]**e[0] * P[1][k]**e[1] for k, w in enumerate(W))
            want = Fraction(1, (e[0] + 1) * (e[1] + 1))
            if eng is None:
                ok = abs(val - want) <= tol
            else:
                res['evaluations'] += 1
                res['nontrivial'] += 1
                ok, _ = eng.prove(z3bool(SR.const(abs(val - want)) <= SR.const(tol)), 'rules')
            if not ok:
                return name, mir, e, float(val), float(want)
    return None


def run(out, only=None):
    """`only`: restrict to the named parts (used when C01 supports another property, vf/support.py)."""
    quick = out.tier == 'quick'
    maxl, units = (4, 16) if quick else (5, 32)   # cell sizes 1, 2, 4, 8, 16 (32): size ratios up to 16 (32)
    cells_open = dyadic_cells(maxl, 0, units)
    cells_glued = dyadic_cells(maxl, 2, units)  # each at most a quarter of the closed curve
    cases = []
    for glued, cells in ((False, cells_open), (True, cells_glued)):
        pairs = [(p, q) for p in cells for q in cells if p <= q]
        nshard = 8
        for s in range(nshard):
            cases.append((glued, pairs[s::nshard], units))
    results = report.pmap('checks.c01', 'panels_worker', cases)
    for c, r in zip(cases, results):
        report.merge_worker(out, r, part='P1 panels glued=%s' % c[0])
    for name, fn in (('P5 time kernel', 'timekernel_worker'), ('P4 closed forms', 'closedform_worker'),
                     ('P2 variables', 'variables_worker'), ('P3 recursion', 'recursion_worker')):
        if only and name[:2] not in only:
            continue
        for r in report.pmap('checks.c01', fn, [0]):
            report.merge_worker(out, r, part=name)
    rr = [4, 12] if quick else [4, 6, 8, 12]
    for r in report.pmap('checks.c01', 'rules_worker', rr):
        report.merge_worker(out, r, part='P6 rules held by the operator')
    out.bounds = dict(rule_orders=rr, parameter_interval='%d symbolic units u, 1e-4 <= u <= 1e3' % units,
                      cells='dyadic cells of level <= %d (level >= 2 when glued)' % maxl,
                      time_configurations='all orderings of a<b, c<d (symbolic reals)')
    out.outside = ['the 1e-7 accuracy of any entry (no decision procedure for quadrature error of Ei/exp integrands)',
                   'effect of quad_order', 'cells finer than level 3 / pairs on non-dyadic positions',
                   'a common factor on all closed forms (no anchor without calculus)']
    out.assumptions = ['exp, Ei, erf uninterpreted (erf odd, exp(0) = 1); sqrt(z) = s with z = s*s',
                       'math.isclose modelled; math.fsum = real sum', 'recording stand-ins for the 2-D schemes in P1',
                       'grading convention: log rule clusters at 0; DuffyScheme2D resolves the diagonal and is '
                       'log-graded at the origin; mirror_x moves the origin to (1,0), mirror_y to (0,1)']
    out.coverage['exhaustive'] = not out.inconclusive
    out.coverage['rule'] = ('P1: every ordered pair of dyadic cells x glued/open, unit symbolic; P2-P5: one exploration '
                            'each over all time orderings / symbolic sizes')
