"""C05: every tabulated quadrature rule is returned, well-formed and exact for its advertised class.

Part A (engine S): the seven lookup functions of src/quadrature_rules.py are executed on a *symbolic
integer key*; every feasible path either returns a well-formed pair of equally long tuples or runs
into the final `assert(False)`, and z3 decides that the latter happens for no key that the if/elif
chain or an exported key list names.
Part B (engine T): per arm of the AST: Return statement, shapes, node range, weight sign, literals
equal what the real function returns.
Part C (engine T + z3): every advertised moment, on the literals as written (1e-30 relative) and on
their double roundings (1e-13 relative); log / sqrt classes through rational enclosures of width
1e-60 whose every value is covered by one QF_LRA query."""
import importlib
import time
from fractions import Fraction as F

import z3

from vf import report, tables
from vf.sym import Engine, Inconclusive, SR

LEVEL = 'other'
TOL_WRITTEN = F(1, 10**30)
TOL_DOUBLE = F(1, 10**13)
TOL_COARSE = F(1, 10**18)  # measured class of the two known-finding tables


def harmonic(n):
    return sum(F(1, k) for k in range(1, n + 1))


def classes_of(arm):
    """[(class name, degrees, exact(k))] advertised by the docstrings of quadrature_rules.py / quadrature.py."""
    fam, key = arm.family, arm.key
    if fam == 'log_quadrature_rule':
        return [('poly', range(0, key[0] + 1)), ('log', range(0, key[1] + 1))]
    if fam == 'log_log_quadrature_rule':
        return [('poly', range(0, key[0] + 1)), ('log', range(0, key[1] + 1)), ('log1m', range(0, key[1] + 1))]
    if fam == 'sqrt_quadrature_rule':
        return [('poly', range(0, key[0] + 1)), ('sqrt', range(0, key[1] + 1))]
    if fam == 'sqrtinv_quadrature_rule':
        return [('poly', range(0, key[0] + 1)), ('sqrtinv', range(0, key[1] + 1))]
    if fam == 'gauss_sqrtinv_quadrature_rule':
        return [('w_sqrtinv', range(0, 2 * key))]
    if fam == 'gauss_x_quadrature_rule':
        return [('w_x', range(0, 2 * key))]
    if fam == 'gauss_log_quadrature_rule':
        return [('w_log', range(0, 2 * (key + 1)))]
    raise KeyError(fam)


def exact_moment(cls, k):
    if cls == 'poly':
        return F(1, k + 1)
    if cls == 'log':
        return -F(1, (k + 1)**2)
    if cls == 'log1m':
        return -harmonic(k + 1) / (k + 1)
    if cls == 'sqrt':
        return 1 / (k + F(3, 2))
    if cls == 'sqrtinv':
        return 1 / (k + F(1, 2))
    if cls == 'w_sqrtinv':
        return 1 / (k + F(1, 2))
    if cls == 'w_x':
        return F(1, k + 2)
    if cls == 'w_log':
        return -F(1, (k + 1)**2)
    raise KeyError(cls)


def rv(x):
    return z3.RealVal('%d/%d' % (x.numerator, x.denominator))


def moment_query(solver, nodes, weights, cls, k, tol, encl_cache):
    """unsat? of |Q - I| > tol*|I| where Q = sum w_i x_i^k phi(x_i); phi enclosed in a rational box."""
    I = exact_moment(cls, k)
    coef = [w * x**k for x, w in zip(nodes, weights)]
    solver.push()
    if cls in ('poly', 'w_sqrtinv', 'w_x', 'w_log'):
        Q = rv(sum(coef))
    else:
        terms = []
        for i, (x, c) in enumerate(zip(nodes, coef)):
            ck = (cls, x)
            box = encl_cache.get(ck)
            if box is None:
                if cls == 'log':
                    box = tables.log_enclosure(x)
                elif cls == 'log1m':
                    box = tables.log_enclosure(1 - x)
                elif cls == 'sqrt':
                    box = tables.sqrt_enclosure(x)
                else:  # sqrtinv: 1/sqrt(x) in [1/hi, 1/lo]
                    lo, hi = tables.sqrt_enclosure(x)
                    box = (1 / hi, 1 / lo)
                encl_cache[ck] = box
            v = z3.Real('phi_%d' % i)
            solver.add(v >= rv(box[0]), v <= rv(box[1]))
            terms.append(rv(c) * v)
        Q = z3.Sum(terms)
    bound = rv(tol * abs(I))
    solver.add(z3.Or(Q - rv(I) > bound, rv(I) - Q > bound))
    t0 = time.time()
    r = solver.check()
    dt = time.time() - t0
    solver.pop()
    return r, dt


def moments_worker(idx):
    repo = report.REPO
    arms, key_lists, problems = tables.parse_rules(repo)
    arm = arms[idx]
    res = dict(stats=dict(paths=0, verdict_queries=0, verdict_unsat=0, verdict_sat=0, solver_s=0.0), violations=[],
               inconclusive=[], samples=[], evaluations=0, nontrivial=0)
    if arm.nodes_txt is None or arm.key is None:
        return res
    solver = z3.SolverFor('QF_LRA')
    solver.set('timeout', 60000)
    encl = {}
    reported = set()
    # 'double': the values the real lookup returns for this key (what a caller gets), rounded doubles as exact rationals
    dbl = arm.doubles()
    try:
        Q = importlib.import_module('src.quadrature_rules')
        r = getattr(Q, arm.family)(*(arm.key if isinstance(arm.key, tuple) else (arm.key, )))
        if well_formed(r):
            dbl = ([F(float(x)) for x in r[0]], [F(float(x)) for x in r[1]])
    except Exception:
        pass   # lookups that raise / return nothing are reported by the lookup part
    for mode, (nodes, weights), tol in (('written', arm.written(), TOL_WRITTEN), ('double', dbl, TOL_DOUBLE)):
        for cls, degs in classes_of(arm):
            for k in degs:
                res['evaluations'] += 1
                res['nontrivial'] += 1
                r, dt = moment_query(solver, nodes, weights, cls, k, tol, encl)
                res['stats']['verdict_queries'] += 1
                res['stats']['solver_s'] += dt
                if r == z3.unknown:
                    res['inconclusive'].append('moment query unknown: %r %s %s k=%d' % (arm, mode, cls, k))
                    continue
                if r == z3.unsat:
                    res['stats']['verdict_unsat'] += 1
                    continue
                res['stats']['verdict_sat'] += 1
                rp = dict(kind='moment', family=arm.family, key=arm.key, mode=mode, cls=cls, k=k, tol=str(tol))
                sig = 'moment-%s:%s:%s' % (mode, arm.family, arm.key)
                if sig not in reported:
                    reported.add(sig)
                    res['violations'].append(dict(
                        signature=sig, what='%s%r: %s moment x^%d (%s) misses relative tolerance %s' %
                        (arm.family, arm.key, cls, k,
                         'literals as written' if mode == 'written' else 'double roundings', float(tol)),
                        replay=rp, reproduced=replay(rp)))
                # every as-written failure is additionally held to 1e-18 (the measured class of the two
                # known-finding tables), so that a corrupted digit in them is still reported
                if mode == 'written':
                    r2, dt2 = moment_query(solver, nodes, weights, cls, k, TOL_COARSE, encl)
                    res['stats']['verdict_queries'] += 1
                    res['stats']['solver_s'] += dt2
                    if r2 == z3.sat:
                        res['stats']['verdict_sat'] += 1
                        sig2 = 'moment-written-coarse:%s:%s' % (arm.family, arm.key)
                        if sig2 not in reported:
                            reported.add(sig2)
                            rp2 = dict(rp, tol=str(TOL_COARSE))
                            res['violations'].append(dict(
                                signature=sig2, what='%s%r: %s moment x^%d as written misses even 1e-18' %
                                (arm.family, arm.key, cls, k), replay=rp2, reproduced=replay(rp2)))
                    elif r2 == z3.unsat:
                        res['stats']['verdict_unsat'] += 1
                    else:
                        res['inconclusive'].append('coarse moment query unknown %r' % arm)
    if len(res['samples']) < 1 and arm.key in ((3, 3), 5, (5, 5)):
        res['samples'].append(dict(rule=repr(arm), points=len(arm.nodes_txt),
                                   classes=[(c, list(d)[:1] + list(d)[-1:]) for c, d in classes_of(arm)]))
    return res


def replay(rp):
    """Independent confirmation with mpmath at 90 digits (on the source literals for 'written', on the values the
    real function returns for 'double'); lookups are replayed by calling the real function."""
    import mpmath
    if rp['kind'] == 'lookup':
        Q = importlib.import_module('src.quadrature_rules')
        try:
            r = getattr(Q, rp['family'])(*rp['args'])
        except AssertionError:
            return rp.get('expect') == 'returns'
        return not well_formed(r)
    if rp['kind'] == 'lookup-arm':
        Q = importlib.import_module('src.quadrature_rules')
        arms, _, _ = tables.parse_rules(report.REPO)
        key = tuple(rp['args'])
        for a in arms:
            ak = a.key if isinstance(a.key, tuple) else (a.key, )
            if a.family == rp['family'] and ak == key and a.nodes_txt is not None:
                try:
                    r = getattr(Q, rp['family'])(*key)
                except Exception:
                    return True
                return not same_rule(a, r)
        return False
    if rp['kind'] == 'sequence':
        # all lookups in file order, then again in reverse: every return value must be its own arm
        Q = importlib.import_module('src.quadrature_rules')
        Q = importlib.reload(Q)
        arms, _, _ = tables.parse_rules(report.REPO)
        good = [a for a in arms if a.nodes_txt is not None and a.key is not None and a.kind == 'return']
        for a in good + good[::-1]:
            try:
                r = getattr(Q, a.family)(*(a.key if isinstance(a.key, tuple) else (a.key, )))
            except Exception:
                return True
            if not same_rule(a, r):
                return True
        return False
    if rp['kind'] == 'arm':
        arms, _, _ = tables.parse_rules(report.REPO)
        for a in arms:
            if a.family == rp['family'] and list(a.key if isinstance(a.key, tuple) else [a.key]) == list(
                    rp['key'] if isinstance(rp['key'], (list, tuple)) else [rp['key']]):
                return bool(arm_problems(a))
        return True
    mpmath.mp.dps = 90
    arms, _, _ = tables.parse_rules(report.REPO)
    key = tuple(rp['key']) if isinstance(rp['key'], (list, tuple)) else rp['key']
    arm = [a for a in arms if a.family == rp['family'] and a.key == key]
    if not arm:
        return True
    arm = arm[0]
    if rp['mode'] == 'written':
        mp = lambda t: mpmath.mpf(tables.dec(t).numerator) / tables.dec(t).denominator
        nodes = [mp(t) for t in arm.nodes_txt]
        weights = [mp(t) for t in arm.weights_txt]
    else:
        Q = importlib.import_module('src.quadrature_rules')
        r = getattr(Q, arm.family)(*(key if isinstance(key, tuple) else (key, )))
        nodes = [mpmath.mpf(float(x)) for x in r[0]]
        weights = [mpmath.mpf(float(x)) for x in r[1]]
    cls, k = rp['cls'], rp['k']
    phi = dict(poly=lambda x: 1, w_sqrtinv=lambda x: 1, w_x=lambda x: 1, w_log=lambda x: 1, log=mpmath.log,
               log1m=lambda x: mpmath.log(1 - x), sqrt=mpmath.sqrt, sqrtinv=lambda x: 1 / mpmath.sqrt(x))[cls]
    q = sum(w * x**k * phi(x) for x, w in zip(nodes, weights))
    I = exact_moment(cls, k)
    I = mpmath.mpf(I.numerator) / I.denominator
    tol = F(rp['tol'])
    return abs(q - I) > (mpmath.mpf(tol.numerator) / tol.denominator) * abs(I)


def same_rule(arm, r):
    """The returned rule is the table entry written for the key: same length, every node and weight equal to the
    double of its literal up to 1e-14 relative (a wrapper that rescales by a factor 1 +- a few ulp is not a
    different rule; whether the returned values integrate the advertised class is decided on the returned values)."""
    try:
        n, w = arm.floats()
        rn, rw = [float(v) for v in r[0]], [float(v) for v in r[1]]
    except Exception:
        return False
    if len(n) != len(rn) or len(w) != len(rw):
        return False
    return all(abs(a - b) <= 1e-14 * max(abs(a), abs(b)) for a, b in zip(n + w, rn + rw))


def well_formed(r):
    try:
        return (r is not None and len(r) == 2 and len(r[0]) == len(r[1]) >= 1
                and all(isinstance(x, (int, float)) for x in r[0]) and all(isinstance(x, (int, float)) for x in r[1]))
    except TypeError:
        return False


def arm_problems(a):
    out = []
    if a.problem:
        out.append(a.problem)
    if a.kind != 'return':
        out.append('arm body is a bare %s statement, not a return: the lookup yields None' % a.kind)
    if a.nodes_txt is not None:
        n, w = a.written()
        if len(n) != len(w) or not n:
            out.append('%d nodes but %d weights' % (len(n), len(w)))
        if not all(0 < x < 1 for x in n):
            out.append('a node lies outside (0,1)')
        if not (all(x > 0 for x in w) or all(x < 0 for x in w)):
            out.append('weights change sign')
    return out


def lookup_worker(fam):
    """Engine S on the real lookup function with a symbolic integer key."""
    repo = report.REPO
    Q = importlib.import_module('src.quadrature_rules')
    fn = getattr(Q, fam)
    arms, key_lists, _ = tables.parse_rules(repo)
    keys = [a.key for a in arms if a.family == fam]
    listed = []
    for nm, f in tables.KEY_LISTS.items():
        if f == fam:
            listed = key_lists.get(nm, [])
    pair = isinstance(keys[0], tuple)
    eng = Engine(timeout_ms=20000)
    res = dict(stats=None, violations=[], inconclusive=[], samples=[], evaluations=0, nontrivial=0, functions=[
        'src/quadrature_rules.py:' + fam])
    names = ['N_poly', 'N_log'] if pair else ['N']
    lo, hi = -3, 40

    def body():
        args = []
        for nm in names:
            v = eng.real(nm)
            k = z3.Int('int!' + nm)
            eng.assume(z3.And(v.z3() == z3.ToReal(k), k >= lo, k <= hi))
            args.append(v)
        return fn(*args)

    try:
        for pr in eng.explore(body):
            res['evaluations'] += 1
            _, m = eng.feasible(True)
            vals = eng.model_inputs(m)
            args = [int(vals[nm]) for nm in names]
            keyexpr = []
            for kk in set(keys) | set(listed):
                kt = kk if pair else (kk, )
                keyexpr.append(z3.And([eng.real(nm).z3() == c for nm, c in zip(names, kt)]))
            in_table = z3.Or(keyexpr) if keyexpr else z3.BoolVal(False)
            if pr.status == 'exc':
                if isinstance(pr.exc, AssertionError):   # wherever the table lives (the function or a helper it calls)
                    # the final assert(False): must be impossible for a tabulated / listed key
                    ok, m2 = eng.prove(z3.Not(in_table), 'unknown-key-only')
                    if not ok:
                        a2 = [int(eng.model_inputs(m2)[nm]) for nm in names]
                        rp = dict(kind='lookup', family=fam, args=a2, expect='returns')
                        res['violations'].append(dict(signature='lookup-raises:%s:%s' % (fam, a2),
                                                      what='%s%r is named by the table / key list but the lookup '
                                                      'asserts' % (fam, tuple(a2)), replay=rp, reproduced=replay(rp)))
                else:
                    rp = dict(kind='lookup', family=fam, args=args, expect='returns')
                    res['violations'].append(dict(signature='lookup-exception:%s' % fam,
                                                  what='%s%r raises %r' % (fam, tuple(args), pr.exc), replay=rp,
                                                  reproduced=True))
                continue
            res['nontrivial'] += 1
            if not well_formed(pr.value):
                rp = dict(kind='lookup', family=fam, args=args, expect='returns')
                res['violations'].append(dict(signature='lookup-none:%s:%s' % (fam, args),
                                              what='%s%r returns %r instead of (nodes, weights)' %
                                              (fam, tuple(args), pr.value), replay=rp, reproduced=replay(rp)))
            else:
                # every tabulated key this path can be taken with must get its own arm's literals back
                by_key = {(a.key if pair else (a.key, )): a for a in arms if a.family == fam and a.nodes_txt is not None
                          and a.key is not None}
                for kt, arm in by_key.items():
                    here, _ = eng.feasible(z3.And([eng.real(nm).z3() == c for nm, c in zip(names, kt)]))
                    if not here:
                        continue
                    same = same_rule(arm, pr.value)
                    if not same:
                        rp = dict(kind='lookup-arm', family=fam, args=list(kt))
                        res['violations'].append(dict(
                            signature='lookup-other-rule:%s:%s' % (fam, list(kt)),
                            what='%s%r returns a %d-point rule that is not the table entry written for that key (%d points)'
                            % (fam, kt, len(pr.value[0]), len(arm.nodes_txt)), replay=rp, reproduced=replay(rp)))
                if len(res['samples']) < 1:
                    res['samples'].append(dict(lookup=fam, key=args, points=len(pr.value[0])))
        # exported key lists name only available rules
        for kk in listed:
            if kk not in keys:
                rp = dict(kind='lookup', family=fam, args=list(kk), expect='returns')
                res['violations'].append(dict(signature='listed-missing:%s:%s' % (fam, list(kk)),
                                              what='key %r is exported in the key list of %s but has no table arm' %
                                              (kk, fam), replay=rp, reproduced=replay(rp)))
    except Inconclusive as e:
        res['inconclusive'].append('lookup %s: %s' % (fam, e))
    res['stats'] = eng.stats
    return res


def run(out):
    repo = report.REPO
    arms, key_lists, problems = tables.parse_rules(repo)
    for p in problems:
        out.inconclusive.append('table front end: ' + p)
    Q = importlib.import_module('src.quadrature_rules')
    # Part B: structure per arm; every lookup returns the literals of its own arm - asked in file order and then in
    # reverse order (a result must not depend on which rule was requested before)
    for a in arms:
        out.coverage['evaluations'] += 1
        for p in arm_problems(a):
            rp = dict(kind='arm', family=a.family, key=a.key)
            out.violation('arm:%s:%s' % (a.family, a.key), '%s%r (line %d): %s' % (a.family, a.key, a.lineno, p), rp)
        if a.key is None:
            out.notes.append('arm at line %d of %s has a condition that is not `key == literal`; its literals are only '
                             'checked through the symbolic-key lookups' % (a.lineno, a.family))
    good = [a for a in arms if a.kind == 'return' and a.nodes_txt is not None and a.key is not None]
    for a in good + good[::-1]:
        args = a.key if isinstance(a.key, tuple) else (a.key, )
        try:
            r = getattr(Q, a.family)(*args)
            same = same_rule(a, r)
        except Exception as e:
            same = False
        if not same:
            rp = dict(kind='sequence', family=a.family, key=a.key)
            out.violation('lookup-sequence:%s' % a.family, '%s%r does not return the literals of its table entry when the '
                          'lookups are requested one after the other (state shared between rule families / calls?)' %
                          (a.family, a.key), rp, reproduced=replay(rp))
            break
    # Part A: symbolic keys
    results = report.pmap('checks.c05', 'lookup_worker', tables.FAMILIES)
    for f, r in zip(tables.FAMILIES, results):
        report.merge_worker(out, r, part='lookup ' + f)
    # Part C: moments
    idxs = list(range(len(arms)))
    results = report.pmap('checks.c05', 'moments_worker', idxs)
    for i, r in zip(idxs, results):
        report.merge_worker(out, r, part='moments ' + arms[i].family)
    out.bounds = dict(rule_arms=len(arms), families=tables.FAMILIES, symbolic_key_range='integers -3..40 per component',
                      tolerance_as_written=float(TOL_WRITTEN), tolerance_double=float(TOL_DOUBLE),
                      enclosure_width='<= 1e-60 (atanh series with explicit tail bound, integer square roots)')
    out.outside = ['numpy leggauss rules (not tabulated; used in C14/C15)',
                   'keys outside -3..40 (no arm compares against such a key)']
    out.assumptions = ['log/sqrt enclosures: series remainder bound (vf/tables.py), cross-checked against mpmath in replay',
                       'advertised classes read from the docstrings: log (p,q): x^k k<=p, x^k log x k<=q; log_log adds '
                       'x^k log(1-x) k<=q; sqrt / sqrtinv: x^k sqrt x resp. x^k/sqrt x k<=q; Gauss families: degree '
                       '2n-1 against the weight (gauss_log key N has N+1 points)']
    out.coverage['exhaustive'] = True
    out.coverage['rule'] = ('all %d arms x advertised classes x degrees x {as written, double}; every lookup function '
                            'on a symbolic integer key; a case is non-trivial when it is a moment query or a '
                            'returning lookup path' % len(arms))
    out.functions.update('src/quadrature_rules.py:' + f for f in tables.FAMILIES)
