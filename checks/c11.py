"""C11 (decidable part): Galerkin entries are additive under splitting.

 T  time splits, both evaluation paths: bilform(trial, test) = sum over the time halves of the test element, of the
    trial element, or of both.  Executed with symbolic time intervals on concrete space geometry with the real
    quadrature rules; parent and children use the same space nodes and the four-term time kernel telescopes, so the
    identity is exact (exp/Ei uninterpreted) - one path per ordering of the instants.
 S  space splits on the closed-form path (pw_exact, both elements on one straight side): halves and quarters with
    symbolic sizes and positions, exact through the closed forms (exp/erf/Ei uninterpreted, sqrt algebraic).
Space splits on the quadrature path are a numerical statement (different rules for parent and children) and are not
decided."""
import itertools
from fractions import Fraction

import numpy as np
import z3

from checks import c04
from vf import models, report, slsym
from vf.sym import Engine, Inconclusive, SR, z3bool

LEVEL = 'other'


def val(x):
    if isinstance(x, np.ndarray):
        x = x.reshape(-1)[0]
    return SR.lift(x)


def time_split_run(eng, SL, gamma, cells, i_test, i_trial, kind, pw_exact, quad_order):
    a, b, c, d = eng.reals('a b c d')
    eng.assume(a < b)
    eng.assume(c < d)
    op = SL.SingleLayerOperator(slsym.FakeMesh(gamma), quad_order=quad_order, pw_exact=pw_exact)
    xs, xt = cells[i_test], cells[i_trial]

    def E(t0, t1, cell):
        return slsym.Elem(t0, t1, slsym.exact(cell[0]), slsym.exact(cell[1]), cell[2])
    test, trial = E(a, b, xs), E(c, d, xt)
    me, mf = (a + b) / 2, (c + d) / 2
    tests = [E(a, me, xs), E(me, b, xs)] if kind in ('test', 'both') else [test]
    trials = [E(c, mf, xt), E(mf, d, xt)] if kind in ('trial', 'both') else [trial]
    whole = val(op.bilform(trial, test))
    parts = SR.const(0)
    for te in tests:
        for tr in trials:
            parts = parts + val(op.bilform(tr, te))
    ok, m = eng.prove_identity(whole, parts, 'time-split')
    return ok, m


def time_worker(case):
    curve, i_test, i_trial, kind, pw_exact, quad_order = case
    SL, SLE, Q = slsym.load_sl()
    gamma = slsym.curve_pieces(curve)
    cells = slsym.space_leaves(gamma, 2)
    eng = Engine(timeout_ms=60000)
    res = dict(stats=None, violations=[], inconclusive=[], samples=[], functions=[
        'src/single_layer.py:SingleLayerOperator.bilform', 'src/single_layer.py:double_time_integrated_kernel',
        'src/single_layer.py:SingleLayerOperator.__integrate', 'src/quadrature.py:QuadScheme2D.integrate'],
        evaluations=0, nontrivial=0)
    if pw_exact:
        res['functions'].append('src/single_layer_exact.py:spacetime_integrated_kernel')

    def body():
        return time_split_run(eng, SL, gamma, cells, i_test, i_trial, kind, pw_exact, quad_order)
    try:
        for pr in eng.explore(body):
            res['evaluations'] += 1
            if pr.status == 'exc':
                m = eng.feasible(True)[1]
                vals = {k: str(v) for k, v in eng.model_inputs(m).items() if v is not None}
                rp = dict(kind='time', case=list(case), values=vals)
                res['violations'].append(dict(signature='time-split:exception', what='bilform raised %r at %s [%s %s]' %
                                              (pr.exc, pr.tb[-1], case, vals), replay=rp, reproduced=replay(rp)))
                continue
            res['nontrivial'] += 1
            ok, m = pr.value
            if not ok:
                mm = eng.dyadic_model(True, bits=3) or eng.feasible(True)[1]
                vals = {k: str(v) for k, v in eng.model_inputs(mm).items() if v is not None}
                rp = dict(kind='time', case=list(case), values=vals)
                res['violations'].append(dict(
                    signature='time-split:%s:%s' % (kind, 'exact' if pw_exact else 'quad'),
                    what='splitting the %s element(s) into time halves does not reproduce the entry (%s, cells %d/%d, '
                    '%s path) for the time configuration %s' % (kind, curve, i_test, i_trial,
                                                                'closed-form' if pw_exact else 'quadrature', vals),
                    replay=rp, reproduced=replay(rp)))
            elif len(res['samples']) < 1:
                mm = eng.feasible(True)[1]
                res['samples'].append(dict(case=list(case), time_order={k: str(v) for k, v in
                                                                        eng.model_inputs(mm).items()}))
    except Inconclusive as e:
        res['inconclusive'].append('time split %r: %s' % (case, e))
    res['stats'] = eng.stats
    return res


def replay(rp):
    """Plain floats on the unmodified modules: |whole - sum of parts| beyond 1e-9 relative."""
    import importlib
    SL = importlib.import_module('src.single_layer')
    if rp['kind'] == 'time':
        curve, i_test, i_trial, kind, pw_exact, quad_order = rp['case']
        vals = {k: float(Fraction(v)) for k, v in rp['values'].items()}
        a, b, c, d = (vals.get(k) for k in 'abcd')
        if None in (a, b, c, d) or not (a < b and c < d):
            return False
        gamma = slsym.curve_pieces(curve)
        cells = slsym.space_leaves(gamma, 2)
        with slsym.unpatched():
            try:
                op = SL.SingleLayerOperator(slsym.FakeMesh(gamma), quad_order=quad_order, pw_exact=pw_exact)

                def E(t0, t1, cell):
                    return slsym.Elem(t0, t1, cell[0], cell[1], cell[2])
                xs, xt = cells[i_test], cells[i_trial]
                me, mf = (a + b) / 2, (c + d) / 2
                tests = [E(a, me, xs), E(me, b, xs)] if kind in ('test', 'both') else [E(a, b, xs)]
                trials = [E(c, mf, xt), E(mf, d, xt)] if kind in ('trial', 'both') else [E(c, d, xt)]
                whole = float(op.bilform(E(c, d, xt), E(a, b, xs)))
                parts = sum(float(op.bilform(tr, te)) for te in tests for tr in trials)
                diag = abs(float(op.bilform(E(a, b, xs), E(a, b, xs)))) + abs(float(op.bilform(E(c, d, xt), E(c, d, xt))))
                return abs(whole - parts) > 1e-9 * (abs(whole) + diag + 1e-300)
            except Exception:
                return True
    if rp['kind'] == 'space':
        return space_concrete(rp)
    return True


# -- S: space splits on the closed-form path ---------------------------------------------------------------
N_UNITS = 8


def dyadic_cells(max_level):
    out = []
    for l in range(0, max_level + 1):
        w = N_UNITS >> l
        for k in range(2**l):
            out.append((k * w, (k + 1) * w))
    return out


def space_split_run(eng, SLE, cx, cy, split, concrete=None):
    """X, Y dyadic cells of one straight piece of N_UNITS symbolic units u (what two mesh elements on one side
    are); times symbolic.  Ties between sizes are then decided by the integer multiples, never by the solver."""
    if concrete:
        ta, tb, tc, td, u = concrete
    else:
        ta, tb, tc, td, u = eng.reals('ta tb tc td u')
        eng.assume(ta < tb)
        eng.assume(tc < td)
        eng.assume(u > 0)
    X = (u * cx[0], u * cx[1])
    Y = (u * cy[0], u * cy[1])
    K = SLE.spacetime_integrated_kernel

    def halves(I):
        m = (I[0] + I[1]) / 2
        return [(I[0], m), (m, I[1])]
    Xs = halves(X) if split in ('x', 'both') else [X]
    Ys = halves(Y) if split in ('y', 'both') else [Y]
    whole = K(ta, tb, tc, td, X[0], X[1], Y[0], Y[1])
    parts = 0
    for xi in Xs:
        for yi in Ys:
            parts = parts + K(ta, tb, tc, td, xi[0], xi[1], yi[0], yi[1])
    if concrete:
        return whole, parts
    ok, m = eng.prove_identity(whole, parts, 'space-split')
    return ok, m


def space_worker(case):
    pairs, split = case
    SL, SLE, Q = slsym.load_sl()
    eng = Engine(timeout_ms=60000, max_paths=20000)
    res = dict(stats=None, violations=[], inconclusive=[], samples=[], functions=[
        'src/single_layer_exact.py:spacetime_integrated_kernel', 'src/single_layer_exact.py:fint_1',
        'src/single_layer_exact.py:fint_2', 'src/single_layer_exact.py:fint_4'], evaluations=0, nontrivial=0)
    for (cx, cy) in pairs:
        def body():
            return space_split_run(eng, SLE, cx, cy, split)
        try:
            for pr in eng.explore(body):
                res['evaluations'] += 1
                bad = None
                if pr.status == 'exc':
                    bad = 'closed-form path raised %r at %s' % (pr.exc, pr.tb[-1])
                else:
                    res['nontrivial'] += 1
                    if not pr.value[0]:
                        bad = 'closed-form entry is not additive under the space split'
                if bad:
                    mm = eng.dyadic_model(True, bits=3) or eng.feasible(True)[1]
                    vals = {k: str(v) for k, v in eng.model_inputs(mm).items() if v is not None}
                    rp = dict(kind='space', cx=list(cx), cy=list(cy), split=split, values=vals)
                    res['violations'].append(dict(signature='space-split:%s' % split, what='%s (cells %r x %r in units of u, '
                                                  'split %s, %s)' % (bad, cx, cy, split, vals), replay=rp,
                                                  reproduced=replay(rp)))
                elif len(res['samples']) < 1:
                    res['samples'].append(dict(cells=[list(cx), list(cy)], split=split))
        except Inconclusive as e:
            res['inconclusive'].append('space split %r %r %s: %s' % (cx, cy, split, e))
        if len(res['violations']) >= 3:
            break
    res['stats'] = eng.stats
    return res


def space_concrete(rp):
    import importlib
    import warnings
    SLE = importlib.import_module('src.single_layer_exact')
    vals = {k: float(Fraction(v)) for k, v in rp['values'].items()}
    try:
        conc = tuple(vals[k] for k in ('ta', 'tb', 'tc', 'td', 'u'))
    except KeyError:
        return False
    if not (conc[0] < conc[1] and conc[2] < conc[3] and conc[4] > 0):
        return False
    with slsym.unpatched(), warnings.catch_warnings():
        warnings.simplefilter('ignore')
        try:
            whole, parts = space_split_run(None, SLE, tuple(rp['cx']), tuple(rp['cy']), rp['split'], concrete=conc)
            return abs(whole - parts) > 1e-9 * (abs(whole) + 1e-12)
        except Exception:
            return True


def run(out):
    quick = out.tier == 'quick'
    qo = 2 if quick else 4
    cases = []
    curves = [('UnitSquare', [(0, 0), (0, 1), (1, 0), (0, 7), (7, 0), (0, 2), (2, 5)]),
              ('Circle', [(0, 0), (0, 1), (0, 7), (7, 0), (1, 4)])]
    if not quick:
        curves.append(('LShape', [(0, 0), (0, 1), (0, 11), (11, 0), (3, 8), (4, 5)]))
    for curve, pairs in curves:
        for (i, j) in pairs:
            for kind in ('test', 'trial', 'both'):
                cases.append((curve, i, j, kind, False, qo))
    # closed-form path: same side pairs of the unit square
    for (i, j) in [(0, 0), (0, 1), (1, 0)]:
        for kind in ('test', 'trial', 'both'):
            cases.append(('UnitSquare', i, j, kind, True, 1))
    for c, r in zip(cases, report.pmap('checks.c11', 'time_worker', cases)):
        report.merge_worker(out, r, part='T time split (%s)' % ('closed form' if c[4] else 'quadrature'))
    cells = dyadic_cells(2 if quick else 3)
    allpairs = [(p, q) for p in cells for q in cells]
    nshard = 5
    sp = [(allpairs[k::nshard], s) for s in ('x', 'y', 'both') for k in range(nshard)]
    for c, r in zip(sp, report.pmap('checks.c11', 'space_worker', sp)):
        report.merge_worker(out, r, part='S space split (closed form)')
    out.bounds = dict(time='symbolic reals a<b, c<d, halves at the midpoints; all orderings of the six instants',
                      space_quadrature_path='concrete cells (two per side) of %s' % [c for c, _ in curves],
                      quad_order=qo, closed_form_space='all ordered pairs of dyadic cells (level <= %d) of a side of %d symbolic units u' % (2 if quick else 3, N_UNITS))
    out.outside = ['space splits on the quadrature path (parent and children use different rules; 1e-7 is numerical)',
                   'the 1e-7 tolerance as such', 'quad_order other than %d' % qo]
    out.assumptions = ['exp/Ei/erf uninterpreted, sqrt algebraic, fsum = real sum',
                       'space coordinates as the exact rationals of the doubles (exact-constant mode)']
    out.coverage['exhaustive'] = not out.inconclusive
    out.coverage['rule'] = 'per (curve, cell pair, split kind, path): every ordering of the time instants is one path'
