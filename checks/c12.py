"""C12 (decidable part): Galerkin entries respect the symmetries of the kernel and of the curve.

 X  exchange: swapping the space intervals of test and trial (times stay put) leaves bilform unchanged;
 H  shift: adding one symbolic amount to both time intervals leaves it unchanged;
 R  motions of the unit square (quarter turn, reflection): the moved pair - including pairs carried across the closing
    seam or around a corner, of equal and of unequal size - has the same entry.
All three are decided as identities of the canonical linear forms of two executions of the real bilform with the real
quadrature rules, symbolic times, space coordinates as the exact rationals of the doubles (so congruent configurations
have *identical* kernel arguments), exp/Ei/cos/sin uninterpreted.  Pi square, circle rotations and the 1e-7 float
tolerance are outside (DESIGN 3.13)."""
from fractions import Fraction

import numpy as np
import z3

from checks import c11
from vf import models, report, slsym
from vf.sym import Engine, Inconclusive, SR, z3bool

LEVEL = 'other'


def E(t0, t1, cell):
    return slsym.Elem(t0, t1, slsym.exact(cell[0]), slsym.exact(cell[1]), cell[2])


def square_cells(gamma):
    """Per side: the whole side, its two halves, its first and last quarter (so that unequal neighbours occur)."""
    out = []
    starts = list(gamma.pw_start)
    for i, g in enumerate(gamma.pw_gamma):
        a, b = starts[i], starts[i + 1]
        h = b - a
        side = [(a, b), (a, a + h / 2), (a + h / 2, b), (a, a + h / 4), (b - h / 4, b)]
        out.append([(x0, x1, g) for (x0, x1) in side])
    return out


def move_cell(gamma, cells, side, k, motion):
    """Image of cell k of `side` under the motion (parameter map s -> s + L/4 resp. s -> L - s)."""
    n = len(cells)
    if motion == 'turn':
        return cells[(side + 1) % n][k]
    # reflection s -> L - s: side i -> n-1-i, and within a side first<->last
    mirror = {0: 0, 1: 2, 2: 1, 3: 4, 4: 3}
    return cells[n - 1 - side][mirror[k]]


def sym_worker(case):
    kind, curve, pairs, quad_order = case
    SL, SLE, Q = slsym.load_sl()
    gamma = slsym.curve_pieces(curve)
    eng = Engine(timeout_ms=60000)
    # exact-constant mode for the rule too: nodes and weights as the exact rationals of the tabulated doubles, so
    # that the mirrored rule 1 - p is formed without rounding (otherwise a reflected pair differs in the 17th digit
    # of the node positions and an exact comparison would raise a false alarm)
    real_lqs = Q.log_quadrature_scheme
    SL.log_quadrature_scheme = lambda p, q: Q.QuadScheme1D(slsym.exact_array(real_lqs(p, q).points),
                                                           slsym.exact_array(real_lqs(p, q).weights))
    res = dict(stats=None, violations=[], inconclusive=[], samples=[], functions=[
        'src/single_layer.py:SingleLayerOperator.bilform', 'src/single_layer.py:SingleLayerOperator.__integrate',
        'src/single_layer.py:double_time_integrated_kernel', 'src/quadrature.py:QuadScheme2D.integrate',
        'src/parametrization.py:line.<locals>.fun'], evaluations=0, nontrivial=0)
    sq = square_cells(gamma) if kind in ('turn', 'reflect') else None
    flat = slsym.space_leaves(gamma, 2)
    for pair in pairs:
        def body(pair=pair):
            a, b, c, d = eng.reals('a b c d')
            eng.assume(a < b)
            eng.assume(c < d)
            op = SL.SingleLayerOperator(slsym.FakeMesh(gamma), quad_order=quad_order)
            if kind == 'exchange':
                X, Y = flat[pair[0]], flat[pair[1]]
                v1 = c11.val(op.bilform(E(c, d, Y), E(a, b, X)))
                v2 = c11.val(op.bilform(E(c, d, X), E(a, b, Y)))
            elif kind == 'shift':
                X, Y = flat[pair[0]], flat[pair[1]]
                s = eng.real('s')
                v1 = c11.val(op.bilform(E(c, d, Y), E(a, b, X)))
                v2 = c11.val(op.bilform(E(c + s, d + s, Y), E(a + s, b + s, X)))
            else:
                (s1, k1), (s2, k2) = pair
                X, Y = sq[s1][k1], sq[s2][k2]
                X2, Y2 = move_cell(gamma, sq, s1, k1, kind), move_cell(gamma, sq, s2, k2, kind)
                v1 = c11.val(op.bilform(E(c, d, Y), E(a, b, X)))
                v2 = c11.val(op.bilform(E(c, d, Y2), E(a, b, X2)))
            return eng.prove_identity(v1, v2, kind)
        try:
            for pr in eng.explore(body):
                res['evaluations'] += 1
                bad = None
                if pr.status == 'exc':
                    bad = 'bilform raised %r at %s' % (pr.exc, pr.tb[-1])
                else:
                    res['nontrivial'] += 1
                    if not pr.value[0]:
                        bad = 'the entry changes'
                if bad:
                    mm = eng.dyadic_model(True, bits=3) or eng.feasible(True)[1]
                    vals = {k: str(v) for k, v in eng.model_inputs(mm).items() if v is not None}
                    rp = dict(kind=kind, curve=curve, pair=[list(p) if isinstance(p, tuple) else p for p in pair],
                              quad_order=quad_order, values=vals)
                    res['violations'].append(dict(
                        signature='%s:%s' % (kind, curve), what='%s under %s of the pair %r on %s (times %s)' %
                        (bad, {'exchange': 'exchange of the space intervals', 'shift': 'a common time shift',
                               'turn': 'a quarter turn', 'reflect': 'the reflection'}[kind], pair, curve, vals),
                        replay=rp, reproduced=replay(rp)))
                elif len(res['samples']) < 1:
                    res['samples'].append(dict(kind=kind, curve=curve, pair=[list(p) if isinstance(p, tuple) else p
                                                                            for p in pair]))
        except Inconclusive as e:
            res['inconclusive'].append('%s %s %r: %s' % (kind, curve, pair, e))
        if len(res['violations']) >= 3:
            break
    res['stats'] = eng.stats
    return res


def replay(rp):
    import importlib
    SL = importlib.import_module('src.single_layer')
    kind, curve = rp['kind'], rp['curve']
    vals = {k: float(Fraction(v)) for k, v in rp['values'].items()}
    a, b, c, d = (vals.get(k) for k in 'abcd')
    if None in (a, b, c, d) or not (a < b and c < d):
        return False
    gamma = slsym.curve_pieces(curve)
    flat = slsym.space_leaves(gamma, 2)

    def Ef(t0, t1, cell):
        return slsym.Elem(t0, t1, cell[0], cell[1], cell[2])
    with slsym.unpatched():
        try:
            op = SL.SingleLayerOperator(slsym.FakeMesh(gamma), quad_order=rp['quad_order'])
            if kind in ('exchange', 'shift'):
                X, Y = flat[rp['pair'][0]], flat[rp['pair'][1]]
                v1 = float(op.bilform(Ef(c, d, Y), Ef(a, b, X)))
                if kind == 'exchange':
                    v2 = float(op.bilform(Ef(c, d, X), Ef(a, b, Y)))
                    return v1 != v2
                s = vals.get('s', 1.0)
                v2 = float(op.bilform(Ef(c + s, d + s, Y), Ef(a + s, b + s, X)))
                return v1 != v2 and abs(v1 - v2) > 1e-13 * abs(v1)
            sq = square_cells(gamma)
            (s1, k1), (s2, k2) = rp['pair']
            X, Y = sq[s1][k1], sq[s2][k2]
            X2, Y2 = move_cell(gamma, sq, s1, k1, kind), move_cell(gamma, sq, s2, k2, kind)
            v1 = float(op.bilform(Ef(c, d, Y), Ef(a, b, X)))
            v2 = float(op.bilform(Ef(c, d, Y2), Ef(a, b, X2)))
            dx = float(op.bilform(Ef(a, b, X), Ef(a, b, X)))
            dy = float(op.bilform(Ef(c, d, Y), Ef(c, d, Y)))
            return abs(v1 - v2) > 1e-9 * (abs(dx * dy)**0.5 + 1e-300)
        except Exception:
            return True


def run(out):
    quick = out.tier == 'quick'
    qo = 2 if quick else 4
    cases = []
    n_by_curve = {'UnitSquare': 8, 'LShape': 12, 'Circle': 8}
    for curve in (['UnitSquare', 'Circle'] if quick else ['UnitSquare', 'LShape', 'Circle']):
        n = n_by_curve[curve]
        pairs = [(i, j) for i in range(n) for j in range(n) if i != j]
        if quick:
            pairs = [p for p in pairs if p[0] in (0, 1, n - 1) or p[1] in (0, n - 1)]
        for k in range(4):
            cases.append(('exchange', curve, pairs[k::4], qo))
        sh = [(0, 0), (0, 1), (n - 1, 0), (0, n - 1), (1, n // 2)]
        cases.append(('shift', curve, sh, qo))
    # motions of the unit square: all pairs of cells on (side s1, side s2) with s1 in {0, 3} (the sides next to the
    # seam), every size combination
    sides = [(0, 0), (0, 1), (3, 0), (0, 3), (3, 3), (0, 2), (3, 1)] if quick else [(p, q) for p in range(4) for q in range(4)]
    for motion in ('turn', 'reflect'):
        for (s1, s2) in sides:
            pairs = []
            for k1 in range(5):
                for k2 in range(5):
                    if s1 == s2:
                        # same side: only nested / equal / disjoint cells that could be leaves of one mesh
                        pass
                    pairs.append(((s1, k1), (s2, k2)))
            cases.append((motion, 'UnitSquare', pairs, qo))
    for c, r in zip(cases, report.pmap('checks.c12', 'sym_worker', cases)):
        report.merge_worker(out, r, part='%s %s' % (c[0], c[1]))
    out.bounds = dict(times='symbolic reals a<b, c<d, shift s symbolic', quad_order=qo,
                      exchange_shift='cells: two per side (eight on the circle) of the listed curves',
                      motions='unit square: per side the whole side, two halves, first and last quarter; all size '
                              'combinations on the listed side pairs %r' % (sides, ))
    out.outside = ['pi square (break points 3*pi, 4*pi are rounded sums: congruent only to 1e-16)',
                   'rotations of the circle (addition theorems)', 'the 1e-7 float tolerance as such',
                   'float rounding of the node positions (exact-constant mode)']
    out.assumptions = ['exp/Ei/cos/sin uninterpreted', 'space coordinates as exact rationals of the doubles']
    out.coverage['exhaustive'] = not out.inconclusive
    out.coverage['rule'] = 'per pair: every ordering of the time instants is one path; identity of canonical linear forms'
