"""C18: curves are arc-length, closed, piecewise consistent; elements sit on one piece; >= 3 elements per
slab on closed curves.

(a) the shipped polygon constructors run concretely (they sample themselves); then `eval` and the pieces are
    executed on a *symbolic* parameter, np.select modelled by its documented semantics; z3 decides, for every
    parameter at once: |gamma_i(x)-gamma_i(y)|^2 = (x-y)^2 on each piece, whole-curve evaluation = the piece
    containing the parameter, continuity at break points, closedness.
(b) MeshParametrized is executed with a *symbolic initial time grid* (1..6 slabs) on every shipped curve, after
    a bounded bisection history; z3 decides that a fresh time t lies in at least three leaves on closed curves
    and that every leaf carries the piece containing its parameter interval."""
import importlib
from fractions import Fraction

import numpy as np
import z3

from checks import c02
from vf import meshsym, models, report
from vf.sym import Engine, Inconclusive, SR, z3bool, z3real

LEVEL = 'other'
CURVES = ['UnitSquare', 'PiSquare', 'LShape', 'Circle', 'UnitInterval']
TOL = Fraction(1, 10**12)


def load():
    P = importlib.import_module('src.parametrization')
    M = importlib.import_module('src.mesh')
    M.print = models.noprint
    return P, M


def make_curve(P, name):
    """Constructors run on plain NumPy (they only sample themselves); symbolic evaluation afterwards."""
    saved = P.np
    P.np = np
    try:
        return getattr(P, name)()
    finally:
        P.np = saved


def install_models(P):
    P.np = models.NpProxy(dict(select=models.select_model, all=models.all_model))



def input_form_mismatches(gamma):
    """eval on integer parameters given in different forms (Python int, NumPy integer scalar, integer-dtype array,
    float array) against the piece that contains the parameter, evaluated on a float.  Returns [(form, k, got, want)]
    as exact rationals of the doubles."""
    starts = [float(v) for v in gamma.pw_start]
    ks = list(range(0, int(np.floor(starts[-1])) + 1))
    want = {}
    for k in ks:
        i = max(j for j in range(len(gamma.pw_gamma)) if starts[j] <= k)
        i = min(i, len(gamma.pw_gamma) - 1)
        want[k] = [Fraction(float(v)) for v in np.asarray(gamma.pw_gamma[i](float(k))).flatten()]
    out = []
    forms = dict(int_array=lambda: np.asarray(gamma.eval(np.array(ks, dtype=int))),
                 float_array=lambda: np.asarray(gamma.eval(np.array(ks, dtype=float))),
                 python_int=lambda: np.hstack([np.asarray(gamma.eval(int(k))).reshape(2, -1) for k in ks]),
                 numpy_int=lambda: np.hstack([np.asarray(gamma.eval(np.int64(k))).reshape(2, -1) for k in ks]))
    for form, fn in forms.items():
        try:
            val = np.asarray(fn(), dtype=float).reshape(2, -1)
        except Exception as e:
            out.append((form, None, repr(e), None))
            continue
        for col, k in enumerate(ks):
            got = [Fraction(float(v)) for v in val[:, col]]
            out.append((form, k, got, want[k]))
    return out


# -- (a) curves ---------------------------------------------------------------------------------------
def curve_worker(name):
    P, M = load()
    gamma = make_curve(P, name)
    install_models(P)
    eng = Engine(timeout_ms=30000)
    res = dict(stats=None, violations=[], inconclusive=[], samples=[], functions=[
        'src/parametrization.py:PiecewiseParametrization.eval', 'src/parametrization.py:line.<locals>.fun'],
        evaluations=0, nontrivial=0)
    Lg = gamma.gamma_length
    starts = list(gamma.pw_start)
    polygon = name != 'Circle'

    def viol(sig, what, rp):
        res['violations'].append(dict(signature='curve:%s:%s' % (name, sig), what='%s: %s' % (name, what), replay=rp,
                                      reproduced=replay(rp)))

    # ground facts: piece lengths, continuity, closedness (concrete doubles -> exact rationals, decided by z3)
    def ground(claim, sig, what, rp):
        res['evaluations'] += 1
        ok, _ = eng.prove(claim, sig)
        if not ok:
            viol(sig, what, rp)

    def close(u, v):
        return z3.And([z3bool(abs(SR.lift(a) - SR.lift(b)) <= TOL * (1 + abs(SR.lift(b))))
                       for a, b in zip(np.asarray(u).flatten(), np.asarray(v).flatten())])

    if polygon:
        for i in range(len(gamma.pw_gamma)):
            a, b = starts[i], starts[i + 1]
            pa, pb = gamma.pw_gamma[i](a), gamma.pw_gamma[i](b)
            d2 = sum((SR.lift(u) - SR.lift(v))**2 for u, v in zip(pa.flatten(), pb.flatten()))
            ln = SR.lift(b) - SR.lift(a)
            ground(z3bool(abs(d2 - ln * ln) <= TOL * (1 + ln * ln)), 'piece-length',
                   'piece %d: parameter length %r differs from the side length' % (i, float(b - a)),
                   dict(kind='piece-length', curve=name, piece=i))
            if i + 1 < len(gamma.pw_gamma):
                ground(close(gamma.pw_gamma[i](b), gamma.pw_gamma[i + 1](b)), 'continuity',
                       'pieces %d and %d disagree at the break point %r' % (i, i + 1, float(b)),
                       dict(kind='continuity', curve=name, piece=i))
        if gamma.closed:
            ground(close(gamma.pw_gamma[-1](Lg), gamma.pw_gamma[0](0)), 'closed',
                   'curve declared closed but eval(L) != eval(0)', dict(kind='closed', curve=name))
    # the same points whatever numeric form the parameter comes in (ground facts on the doubles, real NumPy)
    if polygon:
        P.np = np
        try:
            rows = input_form_mismatches(gamma)
        finally:
            install_models(P)
        flagged = set()
        for form, k, got, want in rows:
            if form in flagged:
                continue
            if k is None:
                flagged.add(form)
                viol('eval-form', 'eval raises %s for integer parameters given as %s' % (got, form),
                     dict(kind='eval-form', curve=name, form=form))
                continue
            res['evaluations'] += 1
            ok, _ = eng.prove(z3.And([z3bool(abs(SR.const(a) - SR.const(b)) <= TOL * 10) for a, b in zip(got, want)]),
                              'eval-form')
            if not ok:
                flagged.add(form)
                viol('eval-form', 'eval(%d) given as %s is (%s) instead of the point (%s) of its piece' %
                     (k, form, ', '.join('%.12g' % float(v) for v in got), ', '.join('%.12g' % float(v) for v in want)),
                     dict(kind='eval-form', curve=name, form=form))
    # symbolic parameter(s)
    if polygon:
        for i in range(len(gamma.pw_gamma)):
            def body(i=i):
                x, y = eng.real('x'), eng.real('y')
                a, b = starts[i], starts[i + 1]
                eng.assume(x >= a)
                eng.assume(x <= b)
                eng.assume(y >= a)
                eng.assume(y <= b)
                px, py = gamma.pw_gamma[i](x), gamma.pw_gamma[i](y)
                d2 = sum((u - v)**2 for u, v in zip(px.flatten(), py.flatten()))
                ok, m = eng.prove(z3bool(d2 == (x - y)**2), 'arclength')
                return ok, m
            for pr in eng.explore(body):
                res['evaluations'] += 1
                res['nontrivial'] += 1
                if pr.status != 'ok':
                    viol('arclength-exc', 'piece %d raised %r on a symbolic parameter' % (i, pr.exc),
                         dict(kind='arclength', curve=name, piece=i, x=None, y=None))
                elif not pr.value[0]:
                    vals = eng.model_inputs(pr.value[1])
                    viol('arclength', 'piece %d is not parametrised by arc length (x=%s, y=%s)' %
                         (i, vals.get('x'), vals.get('y')),
                         dict(kind='arclength', curve=name, piece=i, x=str(vals.get('x')), y=str(vals.get('y'))))

    # whole-curve evaluation = piece containing the parameter
    def body_eval():
        x = eng.real('x')
        eng.assume(x >= 0)
        eng.assume(x <= Lg)
        val = gamma.eval(x)
        bad = []
        for i in range(len(gamma.pw_gamma)):
            inside = z3.And(z3bool(x >= starts[i]), z3bool(x <= starts[i + 1]))
            pv = gamma.pw_gamma[i](x)
            if not polygon:
                same = z3.And([z3bool(u == v) for u, v in zip(np.asarray(val).flatten(), np.asarray(pv).flatten())])
            else:
                same = z3.And([z3bool(abs(u - v) <= TOL * 10) for u, v in zip(val.flatten(), pv.flatten())])
            ok, m = eng.prove(z3.Implies(inside, same), 'eval=piece')
            if not ok:
                bad.append((i, eng.model_inputs(m).get('x')))
        return bad

    if polygon or True:
        if not polygon:
            # circle: cos/sin uninterpreted on the canonical argument
            P.np = models.NpProxy(dict(select=models.select_model, all=models.all_model,
                                       cos=models.uf_model('cos', np.cos), sin=models.uf_model('sin', np.sin),
                                       vstack=lambda rows: np.array([np.atleast_1d(np.asarray(r, dtype=object))
                                                                     for r in rows], dtype=object)))
        try:
            for pr in eng.explore(body_eval):
                res['evaluations'] += 1
                res['nontrivial'] += 1
                if pr.status != 'ok':
                    viol('eval-exc', 'eval raised %r for a parameter in [0, L]' % (pr.exc, ),
                         dict(kind='eval', curve=name, x=None))
                else:
                    for i, xv in pr.value:
                        viol('eval-piece', 'eval(x) differs from piece %d although x=%s lies in its interval' % (i, xv),
                             dict(kind='eval', curve=name, piece=i, x=str(xv)))
        except Inconclusive as e:
            res['inconclusive'].append('curve %s: %s' % (name, e))
    res['samples'].append(dict(curve=name, pieces=len(gamma.pw_gamma), length=float(Lg), closed=bool(gamma.closed)))
    res['stats'] = eng.stats
    return res


# -- (b) meshes ---------------------------------------------------------------------------------------
def mesh_run(eng, P, M, gamma, name, n_slabs, hist_len, extra_space, fail, concrete=None):
    if concrete:
        ts = concrete['ts']
    else:
        ts = [SR.const(0)] + [eng.real('t%d' % k) for k in range(1, n_slabs + 1)]
        for a, b in zip(ts, ts[1:]):
            eng.assume(a < b)
    space = None
    if extra_space:
        if concrete:
            s = concrete['s']
        else:
            s = eng.real('s')
            eng.assume(s > gamma.pw_start[0])
            eng.assume(s < gamma.pw_start[1])
        space = [gamma.pw_start[0], s] + list(gamma.pw_start[1:])
    mesh = M.MeshParametrized(gamma, initial_space_mesh=space, initial_time_mesh=ts)
    hist = []
    for step in range(hist_len):
        leaves = list(mesh.leaf_elements)
        acts = [(i, op) for i in range(len(leaves)) for op in (0, 1)]
        act = tuple(concrete['actions'][step]) if concrete else acts[eng.choice(len(acts))]
        hist.append(list(act))
        c02.apply_action(mesh, leaves, act)
    T, Lg = ts[-1], gamma.gamma_length
    starts = gamma.pw_start
    # piece assignment
    for e in mesh.leaf_elements:
        a, b = e.space_interval
        idx = [i for i, g in enumerate(gamma.pw_gamma) if g is e.gamma_space]
        if len(idx) != 1:
            fail('piece-missing', 'leaf %r carries no piece of the curve' % (e, ), None)
            continue
        i = idx[0]
        ok, m = eng.prove(z3.And(z3bool(a >= starts[i]), z3bool(a < b), z3bool(b <= starts[i + 1])), 'piece')
        if not ok:
            fail('piece-wrong', 'leaf %r carries piece %d which does not contain its parameter interval' % (e, i), m)
    if gamma.closed:
        t = eng.real('pt!')
        cnt = z3.Sum([z3.If(z3.And(z3bool(e.time_interval[0] <= t), z3bool(t < e.time_interval[1])), 1, 0)
                      for e in mesh.leaf_elements])
        ok, m = eng.prove(z3.Implies(z3.And(z3bool(t >= 0), z3bool(t < T)), cnt >= 3), 'three-per-slab')
        if not ok:
            fail('three-per-slab', 'at some time fewer than three elements go around the closed curve (%s)' %
                 m.eval(cnt), m)
        # two distinct leaves of one slab share at most one end point
        lv = list(mesh.leaf_elements)
        both = []
        for p in range(len(lv)):
            for q in range(len(lv)):
                if p == q:
                    continue
                e, f = lv[p], lv[q]
                (a, b), (c, d) = e.space_interval, f.space_interval
                overlap_t = z3.And(z3bool(e.time_interval[0] < f.time_interval[1]),
                                   z3bool(f.time_interval[0] < e.time_interval[1]))
                c1, c2, c3 = (b == c), (a == 0), (d == Lg)
                if c1 is False or c2 is False or c3 is False:
                    continue
                both.append(z3.And(overlap_t, z3bool(c1), z3bool(c2), z3bool(c3)))
        if both:
            ok, m = eng.prove(z3.Not(z3.Or(both)), 'one-endpoint')
            if not ok:
                fail('two-endpoints', 'two distinct elements of a slab touch in both end points', m)
    return hist, len(mesh.leaf_elements)


def mesh_worker(case):
    name, n_slabs, hist_len, extra_space, prefix = case
    P, M = load()
    gamma = make_curve(P, name)
    install_models(P)
    eng = Engine(timeout_ms=30000)
    res = dict(stats=None, violations=[], inconclusive=[], samples=[], functions=[
        'src/mesh.py:MeshParametrized.__init__', 'src/mesh.py:Mesh.__init__', 'src/mesh.py:Mesh.refine_axis',
        'src/mesh.py:Element.__init__'], evaluations=0, nontrivial=0)
    cands = []

    def fail(sig, what, model):
        cands.append((sig, what, model))

    def body():
        cands.clear()
        return mesh_run(eng, P, M, gamma, name, n_slabs, hist_len, extra_space, fail)

    try:
        for pr in eng.explore(body, prefix=list(prefix) if prefix else None):
            res['evaluations'] += 1
            if pr.status == 'exc':
                f = pr.tb[-1]
                cands.append(('exception:%s@%s:%s' % (type(pr.exc).__name__, f.filename.split('/')[-1], f.name),
                              '%s: %s at %s:%d' % (type(pr.exc).__name__, pr.exc, f.filename, f.lineno), None))
            elif pr.status == 'ok':
                res['nontrivial'] += 1
                if len(res['samples']) < 1:
                    res['samples'].append(dict(curve=name, slabs=n_slabs, history=pr.value[0], leaves=pr.value[1]))
            for sig, what, model in cands:
                if model is None:
                    _, model = eng.feasible(True)
                vals = {k: str(v) for k, v in eng.model_inputs(model).items() if v is not None}
                rp = dict(kind='mesh', curve=name, slabs=n_slabs, extra_space=extra_space, values=vals,
                          actions=[list(a) for a in choices_to_actions(P, M, gamma, n_slabs, extra_space, pr.choices,
                                                                        hist_len)])
                res['violations'].append(dict(signature='mesh:%s:%s' % (name, sig), what='%s [%s, %d slabs, values %s]' %
                                              (what, name, n_slabs, vals), replay=rp, reproduced=replay(rp)))
            cands.clear()
            if len(res['violations']) >= 3:
                break
    except Inconclusive as e:
        res['inconclusive'].append('mesh %s slabs %d: %s' % (name, n_slabs, e))
    res['stats'] = eng.stats
    return res


def choices_to_actions(P, M, gamma, n_slabs, extra_space, choices, hist_len):
    ts = [float(k) for k in range(n_slabs + 1)]
    space = None
    if extra_space:
        space = [gamma.pw_start[0], gamma.pw_start[1] * 0.375] + list(gamma.pw_start[1:])
    mesh = M.MeshParametrized(gamma, initial_space_mesh=space, initial_time_mesh=ts)
    acts = []
    for step in range(hist_len):
        leaves = list(mesh.leaf_elements)
        al = [(i, op) for i in range(len(leaves)) for op in (0, 1)]
        if step >= len(choices):
            break
        a = al[choices[step]]
        acts.append(a)
        c02.apply_action(mesh, leaves, a)
    return acts


def replay(rp):
    P, M = load()
    P.np = np
    name = rp['curve']
    gamma = getattr(P, name)()
    kind = rp['kind']
    if kind == 'mesh':
        vals = rp.get('values') or {}
        try:
            ts = [0.0] + [float(Fraction(vals['t%d' % k])) for k in range(1, rp['slabs'] + 1)]
        except KeyError:
            ts = [float(k) for k in range(rp['slabs'] + 1)]
        if any(b <= a for a, b in zip(ts, ts[1:])):
            return False
        conc = dict(ts=ts, actions=rp['actions'])
        if rp.get('extra_space'):
            conc['s'] = float(Fraction(vals.get('s', '3/8'))) if vals.get('s') else 0.375 * gamma.pw_start[1]
        found = []

        def fail(sig, what, model):
            found.append(sig)
        with Engine(timeout_ms=30000) as eng:
            try:
                mesh_run(eng, P, M, gamma, name, rp['slabs'], len(rp['actions']), rp.get('extra_space'), fail,
                         concrete=conc)
            except Exception as e:
                found.append('exception:' + type(e).__name__)
        return bool(found)
    if kind == 'arclength':
        if rp.get('x') is None:
            return False
        x, y = float(Fraction(rp['x'])), float(Fraction(rp['y']))
        g = gamma.pw_gamma[rp['piece']]
        d = np.linalg.norm(g(x) - g(y))
        return abs(d - abs(x - y)) > 1e-9 * (1 + abs(x - y))
    if kind == 'eval':
        if rp.get('x') is None:
            # an exception on the symbolic run: reproduced only if the real code fails on real parameters
            for xx in np.linspace(0.0, gamma.gamma_length, 33):
                try:
                    gamma.eval(float(xx))
                except Exception:
                    return True
            return False
        x = float(Fraction(rp['x']))
        try:
            v = gamma.eval(x)
        except Exception:
            return True
        return not np.allclose(v, gamma.pw_gamma[rp['piece']](x), rtol=0, atol=1e-9)
    if kind == 'eval-form':
        for form, k, got, want in input_form_mismatches(gamma):
            if form == rp['form'] and (k is None or any(abs(float(a) - float(b)) > 1e-9 for a, b in zip(got, want))):
                return True
        return False
    if kind == 'piece-length':
        i = rp['piece']
        a, b = gamma.pw_start[i], gamma.pw_start[i + 1]
        return abs(np.linalg.norm(gamma.pw_gamma[i](b) - gamma.pw_gamma[i](a)) - (b - a)) > 1e-9
    if kind == 'continuity':
        i = rp['piece']
        b = gamma.pw_start[i + 1]
        return not np.allclose(gamma.pw_gamma[i](b), gamma.pw_gamma[i + 1](b), rtol=0, atol=1e-9)
    if kind == 'closed':
        return not np.allclose(gamma.pw_gamma[-1](gamma.gamma_length), gamma.pw_gamma[0](0), rtol=0, atol=1e-9)
    return False


def run(out):
    quick = out.tier == 'quick'
    results = report.pmap('checks.c18', 'curve_worker', CURVES)
    for c, r in zip(CURVES, results):
        report.merge_worker(out, r, part='curve ' + c)
    cases = []
    slabs = [1, 2, 3, 4] if quick else [1, 2, 3, 4, 5, 6]
    hist = 1 if quick else 2
    for name in CURVES:
        for n in slabs:
            cases.append((name, n, 0, False, ()))
            if n <= (2 if quick else 3):
                cases.append((name, n, hist, False, ()))
        if name in ('UnitSquare', 'LShape', 'UnitInterval', 'Circle'):
            cases.append((name, 1, 0, True, ()))
            cases.append((name, 2, 1, True, ()))
    results = report.pmap('checks.c18', 'mesh_worker', cases)
    for c, r in zip(cases, results):
        report.merge_worker(out, r, part='mesh %s' % c[0])
    out.bounds = dict(curves=CURVES, time_slabs=slabs, history=hist,
                      initial_space_grid='pw_start, plus one symbolic extra point on the first piece (on the circle: two cells [0, s, 2pi])',
                      parameters='symbolic reals in [0, L]')
    out.outside = ['arc length / closedness of the circle (needs cos^2+sin^2 = 1 and a derivative)',
                   'random polygons', 'rounding: polygon identities are exact because all shipped sides are axis '
                   'parallel with unit direction vectors; break-point agreement is decided to 1e-12']
    out.assumptions = ['np.select, np.all modelled by their documented semantics (vf/models.py)',
                       'cos/sin uninterpreted for the circle', 'constructors executed concretely on NumPy']
    out.coverage['exhaustive'] = not out.inconclusive
    out.coverage['rule'] = ('per curve: ground facts + one symbolic exploration per piece and one of eval; per mesh '
                            'case: every history shape of the stated length with a symbolic time grid')
