"""C20: h-h/2 and hierarchical estimators equal their definitions; Prolongate preserves values.

The real HH2ErrorEstimator.estimate, HierarchicalErrorEstimator.estimate, DummyElement.uniform_refinement and
Prolongate are executed on a real Mesh with *symbolic grid coordinates* (after a bounded bisection history) with
  - SL.bilform_matrix, M0.linform_vector and g replaced by uninterpreted functions of the *geometry* of the elements
    they are called with (so an entry is recognised whatever list position it is requested from),
  - np.linalg.solve replaced by its defining axiom (fresh vector x with A x = b),
  - the code's own `assert scaling_estim > 0` as a hypothesis (its truth is C13's concern).
Decided per path: the four virtual children are the four grandchildren that real bisection of a copy of the mesh
produces, in the order (early,left), (early,right), (late,left), (late,right); the right-hand side handed to the fine
solve is g - M0; the h-h/2 value is sqrt(d^T A d) with d = x - (coarse value of the real ancestor); the hierarchical
pair is (e_t + e_tx/2, e_x + e_tx/2) with e_psi = (psi^T(rhs - V Phi))^2 / psi^T S psi for psi = time / space /
checkerboard; Prolongate returns the value of the unique ancestor."""
import importlib
from fractions import Fraction

import numpy as np
import z3

from checks import c02
from vf import meshsym, models, report, slsym
from vf.sym import Engine, Inconclusive, SR, z3bool

LEVEL = 'other'


class AbsSq:
    """abs(x) whose only use is abs(x)**2: avoids forking on the sign."""
    def __init__(self, x):
        self.x = x

    def __pow__(self, e):
        if e == 2:
            return self.x * self.x
        raise Inconclusive('abs(x)**%r' % (e, ))


def abs_model(x):
    if isinstance(x, SR) and not x.is_const():
        return AbsSq(x)
    return abs(x)


def geom(e):
    return (SR.lift(e.time_interval[0]), SR.lift(e.time_interval[1]), SR.lift(e.space_interval[0]),
            SR.lift(e.space_interval[1]))


def gkey(e):
    return tuple(v.key() for v in geom(e))


class Stubs:
    def __init__(self, eng, with_g, with_m0):
        self.eng = eng
        self.calls = []
        self.solves = []
        self.g = (lambda elems: np.array([eng.apply('g', *geom(e)) for e in elems], dtype=object)) if with_g else None
        self.M0 = self if with_m0 else None

    # SL interface
    def bilform_matrix(self, elems_test=None, elems_trial=None, use_mp=False):
        self.calls.append((list(elems_test), list(elems_trial)))
        mat = np.empty((len(elems_test), len(elems_trial)), dtype=object)
        for i, te in enumerate(elems_test):
            for j, tr in enumerate(elems_trial):
                mat[i, j] = self.B(te, tr)
        return mat

    def B(self, test, trial):
        return self.eng.apply('B', *(geom(test) + geom(trial)))

    # M0 interface
    def linform_vector(self, elems=None, use_mp=False):
        return np.array([self.eng.apply('m0', *geom(e)) for e in elems], dtype=object)

    def rhs_of(self, e):
        v = SR.const(0)
        if self.g is not None:
            v = v + self.eng.apply('g', *geom(e))
        if self.M0 is not None:
            v = v - self.eng.apply('m0', *geom(e))
        return v

    def solve(self, A, b):
        n = len(b)
        x = np.array([self.eng.real('x!%d_%d' % (len(self.solves), k)) for k in range(n)], dtype=object)
        self.solves.append((A, b, x))
        return x


def load(stubs):
    M = c02.load_mesh_module()
    M.np = models.NpProxy(dict(zeros=models.zeros_model))
    HE = importlib.import_module('src.hierarchical_error_estimator')
    HH = importlib.import_module('src.h_h2_error_estimator')
    HE.float = models.float_model
    HE.abs = abs_model
    HE.np = models.NpProxy(dict(zeros=models.zeros_model, array=models.array_model))
    HE.print = models.noprint
    HH.print = models.noprint
    HH.np = models.NpProxy(dict(zeros=models.zeros_model, sqrt=models.sqrt_term_unchecked),
                           linalg=dict(solve=lambda A, b: stubs.solve(A, b)))
    return M, HE, HH


def real_grandchildren(M, mesh_copy, elem):
    """Bisect a leaf of the copy by the real mesh code: time then space; returns the four grandchildren ordered
    (early,left), (early,right), (late,left), (late,right) by their *coordinates* (solver-free: decided on polys
    through the parent chain)."""
    early, late = mesh_copy.refine_time(elem)
    el, er = mesh_copy.refine_space(early)
    ll, lr = mesh_copy.refine_space(late)
    return [el, er, ll, lr]


def build(eng, M, gridname, hist, concrete=None):
    mesh = meshsym.build_mesh(M, eng, gridname)
    mesh2 = None
    acts = []
    for step in range(hist):
        leaves = list(mesh.leaf_elements)
        al = [(i, op) for i in range(len(leaves)) for op in (0, 1)]
        a = al[eng.choice(len(al))]
        acts.append(a)
        c02.apply_action(mesh, leaves, a)
    return mesh, acts


def replay_mesh(M, eng, gridname, acts):
    """A second, independent copy of the same mesh (same symbolic grid, same history) for the real bisections."""
    n_t, n_x, glued = meshsym.GRIDS[gridname]
    ts = [SR.const(0)] + [eng.real('t%d' % k) for k in range(1, n_t + 1)]
    xs = [SR.const(0)] + [eng.real('x%d' % k) for k in range(1, n_x + 1)]
    mesh = M.Mesh(glue_space=glued, initial_space_mesh=xs, initial_time_mesh=ts)
    for a in acts:
        c02.apply_action(mesh, list(mesh.leaf_elements), a)
    return mesh


def estimators_run(eng, gridname, hist, with_g, with_m0):
    st = Stubs(eng, with_g, with_m0)
    M, HE, HH = load(st)
    eng.hyp_sites = {('hierarchical_error_estimator.py', hyp_line(HE))}
    mesh, acts = build(eng, M, gridname, hist)
    elems = list(mesh.leaf_elements)
    n = len(elems)
    Phi = np.array([eng.real('phi%d' % i) for i in range(n)], dtype=object)
    problems = []
    # reference: real bisection of an independent copy
    copy = replay_mesh(M, eng, gridname, acts)
    cl = list(copy.leaf_elements)
    fine_real = []
    for ce in cl:
        fine_real.append(real_grandchildren(M, copy, ce))
    # (1) virtual children = real grandchildren, in the stated order
    virt = HE.DummyElement.uniform_refinement(elems)
    for i in range(n):
        for k in range(4):
            if gkey(virt[i][k]) != gkey(fine_real[i][k]):
                problems.append('children-order: virtual child %d of element %d is %r, real bisection gives %r' %
                                (k, i, virt[i][k], fine_real[i][k]))
            if gkey(elems[i]) != gkey(cl[i]):
                problems.append('harness: copy out of step')
    order_ok = not problems
    # spec quantities by geometry of the REAL grandchildren
    fine = [e for four in fine_real for e in four]
    parent_of = [i for i in range(n) for _ in range(4)]
    # ---- h-h/2 ----
    hh = HH.HH2ErrorEstimator(SL=st, M0=st.M0, g=st.g, use_mp=False)
    st.calls.clear()
    val = hh.estimate(elems, Phi)
    if len(st.solves) != 1:
        problems.append('hh2: expected exactly one linear solve')
    else:
        A, b, x = st.solves[0]
        tests, trials = st.calls[0]
        pos = {gkey(e): k for k, e in enumerate(tests)}
        if sorted(pos) != sorted(gkey(e) for e in fine) or [gkey(e) for e in tests] != [gkey(e) for e in trials]:
            problems.append('hh2: the fine system is not assembled on the four quarters of every element')
        else:
            for k, e in enumerate(tests):
                ok, _ = eng.prove_identity(b[k], st.rhs_of(e), 'hh2:rhs')
                if not ok:
                    problems.append('hh2-rhs: right-hand side of the fine system is not g - M0 on %r' % (e, ))
                    break
            # energy norm of x - extension, extension by the REAL ancestor
            d = {}
            for e, p in zip(fine, parent_of):
                k = pos[gkey(e)]
                d[k] = x[k] - Phi[p]
            spec = SR.const(0)
            for k in range(len(tests)):
                for l in range(len(tests)):
                    spec = spec + d[k] * st.B(tests[k], tests[l]) * d[l]
            v = val
            if isinstance(v, np.ndarray) and v.size == 1:
                v = v.reshape(-1)[0]
            lifted = None if isinstance(v, models.SqrtTerm) else SR.lift(v)
            got = v._sq() if isinstance(v, models.SqrtTerm) else (lifted * lifted if lifted is not None else None)
            ok = got is not None and eng.prove_identity(got, spec, 'hh2:energy')[0]
            if not ok:
                problems.append('hh2-energy: estimate is not sqrt(d^T A d) with d = fine solution - piecewise constant '
                                'extension')
    # ---- hierarchical ----
    st.calls.clear()
    hi = HE.HierarchicalErrorEstimator(SL=st, M0=st.M0, g=st.g)
    res = hi.estimate(elems, Phi)
    for i in range(n):
        four = fine_real[i]
        es = []
        for coefs in ([1, 1, -1, -1], [1, -1, 1, -1], [1, -1, -1, 1]):
            num = SR.const(0)
            for c, e in zip(coefs, four):
                vphi = SR.const(0)
                for j in range(n):
                    vphi = vphi + st.B(e, elems[j]) * Phi[j]
                num = num + c * (st.rhs_of(e) - vphi)
            den = SR.const(0)
            for c1, e1 in zip(coefs, four):
                for c2, e2 in zip(coefs, four):
                    den = den + c1 * c2 * st.B(e1, e2)
            es.append(num * num / den)
        want = (es[0] + es[2] / 2, es[1] + es[2] / 2)
        for col in (0, 1):
            ok, _ = eng.prove_identity(res[i][col], want[col], 'hierarchical')
            if not ok:
                problems.append('hierarchical: %s indicator of element %d differs from its definition' %
                                ('time' if col == 0 else 'space', i))
                break
        # non-negativity given the hypothesis psi^T S psi > 0: each e_psi = num^2/den
    return problems, n, acts


def hyp_line(HE):
    import inspect
    src, start = inspect.getsourcelines(HE.HierarchicalErrorEstimator.estimate)
    for k, ln in enumerate(src):
        if 'assert scaling_estim > 0' in ln:
            return start + k
    return -1


def est_worker(case):
    gridname, hist, with_g, with_m0, prefix = case
    eng = Engine(timeout_ms=60000)
    res = dict(stats=None, violations=[], inconclusive=[], samples=[], functions=[
        'src/h_h2_error_estimator.py:HH2ErrorEstimator.estimate',
        'src/hierarchical_error_estimator.py:HierarchicalErrorEstimator.estimate',
        'src/hierarchical_error_estimator.py:DummyElement.uniform_refinement', 'src/mesh.py:Mesh.refine_axis'],
        evaluations=0, nontrivial=0)

    def body():
        return estimators_run(eng, gridname, hist, with_g, with_m0)
    try:
        for pr in eng.explore(body, prefix=list(prefix) if prefix else None):
            res['evaluations'] += 1
            if pr.status == 'exc':
                probs = ['exception: %r at %s' % (pr.exc, pr.tb[-1])]
                acts = None
            else:
                probs, n, acts = pr.value
                res['nontrivial'] += 1
                if len(res['samples']) < 1:
                    res['samples'].append(dict(grid=gridname, history=[list(a) for a in acts], coarse_elements=n,
                                               g=with_g, M0=with_m0))
            for p in probs[:2]:
                rp = dict(kind='estimators', grid=gridname, choices=pr.choices, with_g=with_g, with_m0=with_m0)
                res['violations'].append(dict(signature='estimators:' + p.split(':')[0], what='%s [grid %s, history %s, '
                                              'g=%s, M0=%s]' % (p, gridname, pr.choices, with_g, with_m0), replay=rp,
                                              reproduced=replay(rp)))
            if len(res['violations']) >= 3:
                break
    except Inconclusive as e:
        res['inconclusive'].append('estimators %r: %s' % (case, e))
    res['stats'] = eng.stats
    return res


# -- Prolongate -------------------------------------------------------------------------------------------
def prolongate_run(eng, gridname, hist_coarse, hist_fine, hist_after=1):
    M = c02.load_mesh_module()
    M.np = models.NpProxy(dict(zeros=models.zeros_model))
    mesh = meshsym.build_mesh(M, eng, gridname)
    for step in range(hist_coarse):
        leaves = list(mesh.leaf_elements)
        al = [(i, op) for i in range(len(leaves)) for op in (0, 1)]
        c02.apply_action(mesh, leaves, al[eng.choice(len(al))])
    coarse = list(mesh.leaf_elements)
    vec = np.array([eng.real('v%d' % i) for i in range(len(coarse))], dtype=object)
    for step in range(hist_fine):
        leaves = list(mesh.leaf_elements)
        al = [(i, op) for i in range(len(leaves)) for op in (0, 1, 2)]
        c02.apply_action(mesh, leaves, al[eng.choice(len(al))])
    fine = list(mesh.leaf_elements)
    # the mesh may be refined further before two *stored* element lists are related (post-processing of an adaptive
    # history): Prolongate must not depend on the current state of the tree
    for step in range(hist_after):
        leaves = list(mesh.leaf_elements)
        al = [(i, op) for i in range(len(leaves)) for op in (0, 1)]
        c02.apply_action(mesh, leaves, al[eng.choice(len(al))])
    out = M.Prolongate(vec, coarse, fine)
    ref, lmap = meshsym.ref_of(mesh)
    bad = []
    for j, f in enumerate(fine):
        rf = meshsym.rect_of(mesh, f)
        anc = [i for i, c in enumerate(coarse) if contains(meshsym.rect_of(mesh, c), rf)]
        if len(anc) != 1:
            bad.append('harness: %d ancestors' % len(anc))
            continue
        ok, _ = eng.prove_identity(out[j], vec[anc[0]], 'prolongate')
        if not ok:
            bad.append('prolongate: fine element %r does not get the value of its ancestor' % (f, ))
    return bad


def contains(o, r):
    return (o.j == r.j and o.i == r.i and o.t0 <= r.t0 and r.t1 <= o.t1 and o.x0 <= r.x0 and r.x1 <= o.x1)


def prol_worker(case):
    gridname, hc, hf, prefix = case[:4]
    ha = case[4] if len(case) > 4 else 1
    eng = Engine(timeout_ms=30000)
    res = dict(stats=None, violations=[], inconclusive=[], samples=[], functions=['src/mesh.py:Prolongate'],
               evaluations=0, nontrivial=0)
    try:
        for pr in eng.explore(lambda: prolongate_run(eng, gridname, hc, hf, ha), prefix=list(prefix) if prefix else None):
            res['evaluations'] += 1
            if pr.status == 'exc':
                bad = ['prolongate: exception %r at %s' % (pr.exc, pr.tb[-1])]
            else:
                bad = pr.value
                res['nontrivial'] += 1
            for b in bad[:1]:
                rp = dict(kind='prolongate', grid=gridname, hc=hc, hf=hf, ha=ha, choices=pr.choices)
                res['violations'].append(dict(signature='prolongate', what='%s [grid %s, choices %s]' % (b, gridname,
                                                                                                      pr.choices),
                                              replay=rp, reproduced=replay(rp)))
            if len(res['violations']) >= 2:
                break
        res['samples'].append(dict(prolongate=gridname, coarse_history=hc, fine_history=hf))
    except Inconclusive as e:
        res['inconclusive'].append('prolongate %r: %s' % (case, e))
    res['stats'] = eng.stats
    return res


def replay(rp):
    """Concrete re-run: the same harness with a concrete grid and generic concrete values for the uninterpreted
    data (B, g, m0 as fixed pseudo-random functions of the geometry), real numpy.linalg.solve."""
    import random
    from vf.sym import Engine as E2
    if rp['kind'] == 'prolongate':
        M = importlib.import_module('src.mesh')
        n_t, n_x, glued = meshsym.GRIDS[rp['grid']]
        with slsym.unpatched():
            M.np = np
            mesh = M.Mesh(glue_space=glued, initial_space_mesh=c02.DEFAULT_X[:n_x + 1],
                          initial_time_mesh=c02.DEFAULT_T[:n_t + 1])
            ch = list(rp['choices'])
            try:
                for step in range(rp['hc']):
                    leaves = list(mesh.leaf_elements)
                    al = [(i, op) for i in range(len(leaves)) for op in (0, 1)]
                    c02.apply_action(mesh, leaves, al[ch.pop(0)] if ch else al[0])
                coarse = list(mesh.leaf_elements)
                vec = np.arange(1.0, len(coarse) + 1)
                for step in range(rp['hf']):
                    leaves = list(mesh.leaf_elements)
                    al = [(i, op) for i in range(len(leaves)) for op in (0, 1, 2)]
                    c02.apply_action(mesh, leaves, al[ch.pop(0)] if ch else al[0])
                fine = list(mesh.leaf_elements)
                for step in range(rp.get('ha', 0)):
                    leaves = list(mesh.leaf_elements)
                    al = [(i, op) for i in range(len(leaves)) for op in (0, 1)]
                    c02.apply_action(mesh, leaves, al[ch.pop(0)] if ch else al[0])
                out = M.Prolongate(vec, coarse, fine)
                for j, f in enumerate(fine):
                    anc = [i for i, c in enumerate(coarse)
                           if c.time_interval[0] <= f.time_interval[0] and f.time_interval[1] <= c.time_interval[1]
                           and c.space_interval[0] <= f.space_interval[0] and f.space_interval[1] <= c.space_interval[1]]
                    if len(anc) != 1 or out[j] != vec[anc[0]]:
                        return True
                return False
            except Exception:
                return True
    # estimators: concrete, through the unmodified modules
    M = importlib.import_module('src.mesh')
    HE = importlib.import_module('src.hierarchical_error_estimator')
    HH = importlib.import_module('src.h_h2_error_estimator')
    saved = (M.np, HE.np, HH.np, HE.__dict__.get('float'), HE.__dict__.get('abs'))
    M.np = HE.np = HH.np = np
    HE.__dict__.pop('float', None)
    HE.__dict__.pop('abs', None)
    try:
        n_t, n_x, glued = meshsym.GRIDS[rp['grid']]
        mesh = M.Mesh(glue_space=glued, initial_space_mesh=c02.DEFAULT_X[:n_x + 1],
                      initial_time_mesh=c02.DEFAULT_T[:n_t + 1])
        copy = M.Mesh(glue_space=glued, initial_space_mesh=c02.DEFAULT_X[:n_x + 1],
                      initial_time_mesh=c02.DEFAULT_T[:n_t + 1])
        for c in rp['choices']:
            for m in (mesh, copy):
                leaves = list(m.leaf_elements)
                al = [(i, op) for i in range(len(leaves)) for op in (0, 1)]
                c02.apply_action(m, leaves, al[c])
        elems = list(mesh.leaf_elements)
        n = len(elems)

        def h(*a):
            r = random.Random(repr(a))
            return r.uniform(0.5, 1.5)

        def G(e):
            return tuple(e.time_interval) + tuple(e.space_interval)

        class S:
            def bilform_matrix(self, elems_test=None, elems_trial=None, use_mp=False):
                A = np.array([[0.05 * h('B', G(a), G(b)) for b in elems_trial] for a in elems_test])
                if len(elems_test) == len(elems_trial):
                    A = A + np.eye(len(elems_test)) * 2.0
                return A

            def linform_vector(self, elems=None, use_mp=False):
                return np.array([h('m', G(e)) for e in elems])
        st = S()

        def Bf(a, b):
            return 0.05 * h('B', G(a), G(b)) + (2.0 if G(a) == G(b) else 0.0)
        g = (lambda es: np.array([h('g', G(e)) for e in es])) if rp['with_g'] else None
        m0 = st if rp['with_m0'] else None
        Phi = np.array([h('phi', i) for i in range(n)])
        fine_real = [real_grandchildren(M, copy, ce) for ce in list(copy.leaf_elements)]
        fine = [e for four in fine_real for e in four]

        def rhs_of(e):
            return (h('g', G(e)) if rp['with_g'] else 0.0) - (h('m', G(e)) if rp['with_m0'] else 0.0)
        # h-h/2 by definition
        A = np.array([[Bf(a, b) for b in fine] for a in fine])
        b = np.array([rhs_of(e) for e in fine])
        x = np.linalg.solve(A, b)
        d = x - np.repeat(Phi, 4)
        want = float(np.sqrt(d @ A @ d))
        got = float(HH.HH2ErrorEstimator(SL=st, M0=m0, g=g, use_mp=False).estimate(elems, Phi))
        if abs(got - want) > 1e-9 * (1 + abs(want)):
            return True
        res = HE.HierarchicalErrorEstimator(SL=st, M0=m0, g=g).estimate(elems, Phi)
        for i in range(n):
            four = fine_real[i]
            es = []
            for coefs in ([1, 1, -1, -1], [1, -1, 1, -1], [1, -1, -1, 1]):
                num = sum(c * (rhs_of(e) - sum((0.05 * h('B', G(e), G(elems[j]))) * Phi[j] for j in range(n)))
                          for c, e in zip(coefs, four))
                den = sum(c1 * c2 * Bf(e1, e2) for c1, e1 in zip(coefs, four) for c2, e2 in zip(coefs, four))
                es.append(num * num / den)
            want = (es[0] + es[2] / 2, es[1] + es[2] / 2)
            if abs(res[i][0] - want[0]) > 1e-9 * (1 + abs(want[0])) or abs(res[i][1] - want[1]) > 1e-9 * (1 + abs(want[1])):
                return True
        return False
    except Exception:
        return True
    finally:
        M.np, HE.np, HH.np = saved[0], saved[1], saved[2]
        if saved[3] is not None:
            HE.float = saved[3]
        if saved[4] is not None:
            HE.abs = saved[4]


def run(out):
    quick = out.tier == 'quick'
    cases = []
    grids = ['2x1g', '1x2g'] if quick else ['2x1g', '3x1g', '1x2g', '2x2o']
    for g in grids:
        n_t, n_x, glued = meshsym.GRIDS[g]
        for (wg, wm) in ((True, False), (False, True), (True, True)):
            cases.append((g, 0, wg, wm, ()))
            if n_t * n_x <= 2 or not quick:
                for c in range(2 * n_t * n_x):
                    cases.append((g, 1, wg, wm, (c, )))
    for c, r in zip(cases, report.pmap('checks.c20', 'est_worker', cases)):
        report.merge_worker(out, r, part='estimators %s' % c[0])
    pc = []
    for g in (['2x1g', '1x1g'] if quick else ['2x1g', '1x1g', '3x1g', '2x2o']):
        if quick:
            pc.append((g, 1, 1, (), 1))
            pc.append((g, 0, 2, (), 0))
            pc.append((g, 0, 1, (), 1))
        else:
            pc.append((g, 1, 2, (), 1))
            pc.append((g, 0, 3, (), 0))
            pc.append((g, 1, 1, (), 2))
    for c, r in zip(pc, report.pmap('checks.c20', 'prol_worker', pc)):
        report.merge_worker(out, r, part='Prolongate %s' % c[0])
    out.bounds = dict(grids=grids, history_before_estimating='<= 1 bisection', coarse_elements='<= 5 (<= 20 fine unknowns)',
                      data='Phi symbolic; B, g, m0 uninterpreted functions of element geometry; with g only, M0 only, both',
                      prolongate='coarse history <= 1, fine history <= %d, then <= %d further bisections before Prolongate is called on the two stored lists' % (2 if quick else 3, 1 if quick else 2))
    out.outside = ['process-pool path of bilform_matrix / linform_vector', 'positivity of psi^T S psi (C13)',
                   'larger meshes']
    out.assumptions = ['np.linalg.solve replaced by its defining axiom (fresh x with A x = b)',
                       'assert scaling_estim > 0 treated as a hypothesis site', 'abs(x)**2 = x*x, float() identity on symbolic '
                       'scalars, np.sqrt kept unevaluated', 'grid coordinates symbolic reals']
    out.coverage['exhaustive'] = not out.inconclusive
    out.coverage['rule'] = 'per grid and data combination: every history shape of the stated length; identities on canonical forms'
