"""C02 (and, with mode='C10', C10): every state reachable by a bounded bisection history from a small
initial mesh with *symbolic* grid coordinates satisfies the mesh invariants, in lock-step with Ref.

Per path (= one history shape) z3 decides, for all strictly increasing real grids at once:
tiling (fresh-point query), dyadic ancestry, vertex distinctness, and (C10) the geometric
neighbour predicate; the leaf set is compared with Ref's least 1-irregular closure after every
operation, and every assertion inside src/mesh.py is an obligation (a feasible path into its
failing side is a candidate violation)."""
import importlib
import itertools
import time
from fractions import Fraction

from vf import meshsym, report
from vf.meshref import RefMesh
from vf.sym import Engine, Inconclusive, PathAbort, SR

LEVEL = 'model_checking'
PROP = 'C02'

DEFAULT_X = [0, 1.0, 1.5, 2.75, 3.0, 4.25]
DEFAULT_T = [0, 0.5, 1.75, 2.0]

QUICK = dict(grids=['1x1o', '1x1g', '2x1g', '3x1g', '1x2g', '2x2o', '2x2g'],
             depth={'default': 3, '2x2o': 2, '2x2g': 2})
THOROUGH = dict(grids=['1x1o', '1x1g', '2x1g', '3x1g', '3x1o', '1x2g', '2x2o', '2x2g', '4x1g', '3x2g'],
                depth={'default': 4, '2x2o': 3, '2x2g': 3, '4x1g': 3, '3x2g': 2})


def load_mesh_module():
    M = importlib.import_module('src.mesh')
    M = importlib.reload(M) if False else M
    M.print = lambda *a, **k: None
    from vf import models as _models
    from checks import c15 as _c15
    M.np = _models.NpProxy(dict(isclose=_c15.isclose_np, allclose=_c15.allclose_np, zeros=_models.zeros_model))
    return M


def actions_of(mesh):
    leaves = list(mesh.leaf_elements)
    acts = [(i, op) for i in range(len(leaves)) for op in (0, 1, 2)]
    if len(leaves) <= MAX_LEAVES_UNIFORM:
        acts.append((-1, 3))  # uniform_refine
        acts.append((-1, 4))  # uniform_refine_space
    return leaves, acts


MAX_LEAVES_UNIFORM = 6
OPN = {0: 'time', 1: 'space', 2: 'both', 3: 'uniform', 4: 'uniform_space'}


def apply_action(mesh, leaves, act):
    i, op = act
    if op == 0:
        mesh.refine_time(leaves[i])
    elif op == 1:
        mesh.refine_space(leaves[i])
    elif op == 2:
        mesh.refine(leaves[i])
    elif op == 3:
        mesh.uniform_refine()
    else:
        mesh.uniform_refine_space()


def ref_apply(ref, rect_leaves, act, fail):
    """The same operation in Ref; also checks that forced bisections are necessary (minimality)."""
    i, op = act
    before = ref.copy()
    if op in (0, 1):
        r = rect_leaves[i]
        S = ref.refine_axis(r, op)
        ok, w = ref.necessary(before, S, {(r, op)})
        if not ok:
            fail('ref:necessity', 'Ref closure contains an unnecessary bisection %r' % (w, ), None)
    elif op == 2:
        r = rect_leaves[i]
        ref.refine_axis(r, 0)
        ref.refine_many(list(r.bisect(0)), 1)
    elif op == 3:
        ref.refine_many(list(ref.leaves), 0)
        ref.refine_many(list(ref.leaves), 1)
    else:
        ref.refine_many(list(ref.leaves), 1)


def run_history(eng, M, gridname, length, mode, fail, concrete=None):
    """One exploration run.  concrete = dict(xs=[..], ts=[..], actions=[..]) for replay."""
    if concrete:
        n_t, n_x, glued = meshsym.GRIDS[gridname]
        mesh = M.Mesh(glue_space=glued, initial_space_mesh=concrete['xs'], initial_time_mesh=concrete['ts'])
        mesh._vf = dict(ts=[SR.lift(t) for t in concrete['ts']], xs=[SR.lift(x) for x in concrete['xs']],
                        n_t=n_t, n_x=n_x, glued=glued)
    else:
        mesh = meshsym.build_mesh(M, eng, gridname)
    hist = []
    for step in range(length):
        leaves, acts = actions_of(mesh)
        if concrete:
            act = tuple(concrete['actions'][step])
        else:
            act = acts[eng.choice(len(acts))]
        ref, lmap = meshsym.ref_of(mesh)
        rect_leaves = [lmap[e] for e in leaves]
        hist.append((act[0], OPN[act[1]], repr(rect_leaves[act[0]]) if act[0] >= 0 else '-'))
        n_before = set(ref.leaves)
        ref_apply(ref, rect_leaves, act, fail)
        apply_action(mesh, leaves, act)
        ref_after, lmap_after = meshsym.ref_of(mesh)
        if ref_after.leaves != ref.leaves:
            extra = sorted(ref_after.leaves - ref.leaves, key=lambda r: r.key())[:3]
            missing = sorted(ref.leaves - ref_after.leaves, key=lambda r: r.key())[:3]
            fail('closure', 'after %s the leaf set is not Ref\'s least 1-irregular refinement '
                 '(code-only %r, ref-only %r)' % (hist[-1], extra, missing), None)
    # final state verdicts
    if mode == 'C02':
        ref_f, lm = meshsym.check_state(eng, mesh, fail)
        g = mesh.gmsh()
        lines = g.split('\n')
        try:
            n_nodes = int(lines[lines.index('$Nodes') + 1])
            n_el = int(lines[lines.index('$Elements') + 1])
            if n_nodes != len(mesh.vertices) or n_el != len(mesh.leaf_elements):
                fail('gmsh', 'gmsh() counts disagree with the mesh', None)
        except ValueError:
            fail('gmsh', 'gmsh() output malformed', None)
    else:
        ref_f, lm = meshsym.check_state(eng, mesh, fail, want_tiling=True, want_vertices=False)
        meshsym.check_neighbours(eng, mesh, ref_f, lm, fail)
    return hist, len(mesh.leaf_elements)


def worker(case):
    gridname, length, prefix, mode, seed = case
    M = load_mesh_module()
    eng = Engine(timeout_ms=30000, seed=seed)
    res = dict(stats=None, violations=[], inconclusive=[], samples=[], functions=[], evaluations=0, nontrivial=0,
               part_extra=dict(states=0, transitions=0))
    cands = []

    def fail(sig, what, model):
        cands.append((sig, what, eng.model_inputs(model) if model is not None else None))

    first = [True]

    def body():
        cands.clear()
        return run_history(eng, M, gridname, length, mode, fail)

    t0 = time.time()
    try:
        gen = eng.explore(body, prefix=list(prefix) if prefix else None)
        for pr in gen:
            res['evaluations'] += 1
            n_t, n_x, glued = meshsym.GRIDS[gridname]
            acts = None
            if pr.status == 'exc':
                # an exception of the code under test on a feasible path
                _, m = eng.feasible(True)
                vals = eng.model_inputs(m) if m is not None else None
                f = pr.tb[-1]
                cands.append(('exception:%s@%s:%s' % (type(pr.exc).__name__, f.filename.split('/')[-1], f.name),
                              '%s: %s at %s:%d (%s)' % (type(pr.exc).__name__, pr.exc, f.filename, f.lineno,
                                                       f.line), vals))
            if pr.status == 'ok':
                hist, nleaf = pr.value
                res['part_extra']['states'] += 1
                res['part_extra']['transitions'] += length
                if nleaf > n_t * n_x + 1:
                    res['nontrivial'] += 1
                if len(res['samples']) < 2:
                    res['samples'].append(dict(grid=gridname, glued=glued, history=hist, leaves=nleaf))
            for sig, what, vals in cands:
                # recover the concrete action list from the decisions of this path
                acts = decisions_to_actions(M, gridname, pr.choices, length)
                if vals is None:
                    # an index-level disagreement (no solver query of its own): the witness grid is a model of the path
                    # condition - the path may exist for special grids only (a tolerance in the code, a tiny cell)
                    _, m = eng.feasible(True)
                    vals = eng.model_inputs(m) if m is not None else None
                rp = dict(grid=gridname, length=length, mode=mode, actions=acts, values=vals)
                ok = replay(rp)
                res['violations'].append(dict(signature='%s:%s' % (mode, sig), what='%s [grid %s, history %s]' %
                                              (what, gridname, acts), replay=rp, reproduced=ok))
            cands.clear()
            if len(res['violations']) >= 5:
                break
    except Inconclusive as e:
        res['inconclusive'].append('%s grid %s depth %d prefix %s: %s' % (mode, gridname, length, prefix, e))
    res['stats'] = eng.stats
    return res


def decisions_to_actions(M, gridname, decisions, length):
    """Replays the discrete choices on a concrete default grid to get the action list."""
    n_t, n_x, glued = meshsym.GRIDS[gridname]
    mesh = M.Mesh(glue_space=glued, initial_space_mesh=DEFAULT_X[:n_x + 1], initial_time_mesh=DEFAULT_T[:n_t + 1])
    acts = []
    # decisions contains only the choice outcomes interleaved with branch outcomes; choices are ints
    # at 'c' positions.  On the concrete grid the same action sequence is legal, so walk it.
    it = list(decisions)
    for step in range(length):
        leaves, al = actions_of(mesh)
        if step >= len(it):
            break
        a = al[it[step]]
        acts.append(list(a))
        try:
            apply_action(mesh, leaves, a)
        except Exception:
            break
    return acts


def replay(rp):
    """Concrete re-run on the unmodified code with plain floats; True iff a violation shows."""
    M = load_mesh_module()
    if rp.get('kind') == 'fp-midpoint':
        if not rp.get('values'):
            return True
        lo, hi, fixed = rp['values']
        mesh = object.__new__(M.Mesh)
        mesh.vertices = []
        if rp['axis'] == 1:
            A, B = M.Vertex(t=fixed, x=lo, idx=0), M.Vertex(t=fixed, x=hi, idx=1)
        else:
            A, B = M.Vertex(t=lo, x=fixed, idx=0), M.Vertex(t=hi, x=fixed, idx=1)
        try:
            m1 = getattr(mesh, '_Mesh__bisect_edge')(M.Edge((A, B)))
            m2 = getattr(mesh, '_Mesh__bisect_edge')(M.Edge((B, A)))
        except AssertionError:
            return True
        c1, c2 = (m1.x, m2.x) if rp['axis'] == 1 else (m1.t, m2.t)
        return not (c1 == c2 and lo <= c1 <= hi)
    gridname = rp['grid']
    n_t, n_x, glued = meshsym.GRIDS[gridname]
    vals = rp.get('values') or {}
    xs, ts = [0.0], [0.0]
    ok_vals = True
    for k in range(1, n_x + 1):
        v = vals.get('x%d' % k)
        if v is None:
            ok_vals = False
            break
        xs.append(float(Fraction(v)))
    for k in range(1, n_t + 1):
        v = vals.get('t%d' % k)
        if v is None:
            ok_vals = False
            break
        ts.append(float(Fraction(v)))
    if not ok_vals or any(b <= a for a, b in zip(xs, xs[1:])) or any(b <= a for a, b in zip(ts, ts[1:])):
        xs, ts = [float(x) for x in DEFAULT_X[:n_x + 1]], [float(t) for t in DEFAULT_T[:n_t + 1]]
    found = []

    def fail(sig, what, model):
        found.append(sig)

    conc = dict(xs=xs, ts=ts, actions=rp['actions'])
    with Engine(timeout_ms=30000) as eng:
        try:
            run_history(eng, M, gridname, len(rp['actions']), rp.get('mode', 'C02'), fail, concrete=conc)
        except Exception as e:
            found.append('exception:' + type(e).__name__)
    return bool(found)


THOROUGH_C10 = dict(grids=THOROUGH['grids'],
                    depth={'default': 3, '1x1o': 4, '1x1g': 4, '2x1g': 4, '1x2g': 4, '3x2g': 2})


def cases_for(tier, mode, seed):
    cfg = QUICK if tier == 'quick' else (THOROUGH_C10 if mode == 'C10' else THOROUGH)
    M = load_mesh_module()
    cases = []
    for g in cfg['grids']:
        depth = cfg['depth'].get(g, cfg['depth']['default'])
        n_t, n_x, glued = meshsym.GRIDS[g]
        n_first = 3 * n_t * n_x + 2
        for length in range(1, depth + 1):
            if length >= 3:
                for c in range(n_first):
                    cases.append((g, length, (c, ), mode, seed))
            else:
                cases.append((g, length, (), mode, seed))
    # longest first for load balance
    cases.sort(key=lambda c: -c[1])
    return cases, cfg


def fp_midpoint_worker(case):
    """QF_FP lemma: the midpoint vertex `Mesh.__bisect_edge` creates does not depend on the orientation of the edge
    (refine_axis bisects two opposite edges of an element in opposite directions and asserts that the two new
    vertices agree in the bisected coordinate), and lies within the edge - in IEEE double arithmetic, for all finite
    end points up to 2^60.  The real method is executed on z3 Float64 terms."""
    import z3 as _z3
    from vf import fpsym
    axis, with_bounds = case
    M = load_mesh_module()
    eng = Engine(timeout_ms=120000, logic='QF_FP')
    res = dict(stats=None, violations=[], inconclusive=[], samples=[], functions=['src/mesh.py:Mesh.__bisect_edge'],
               evaluations=0, nontrivial=0, part_extra=dict(states=0, transitions=0))

    def body():
        lo, hi, fixed = fpsym.FPV.var('lo'), fpsym.FPV.var('hi'), fpsym.FPV.var('fixed')
        for v in (lo, hi, fixed):
            eng.assume(fpsym.finite_bounded(v, 2.0**60), check=False)
        eng.assume(lo < hi, check=False)
        mesh = object.__new__(M.Mesh)
        mesh.vertices = []
        if axis == 1:   # space edge: t fixed, x from lo to hi
            A, B = M.Vertex(t=fixed, x=lo, idx=0), M.Vertex(t=fixed, x=hi, idx=1)
        else:           # time edge: x fixed
            A, B = M.Vertex(t=lo, x=fixed, idx=0), M.Vertex(t=hi, x=fixed, idx=1)
        e1, e2 = M.Edge((A, B)), M.Edge((B, A))
        m1 = getattr(mesh, '_Mesh__bisect_edge')(e1)
        m2 = getattr(mesh, '_Mesh__bisect_edge')(e2)
        c1, c2 = (m1.x, m2.x) if axis == 1 else (m1.t, m2.t)
        f1, f2 = (m1.t, m2.t) if axis == 1 else (m1.x, m2.x)
        # each claim is a statement about values computed from the inputs only: posed to a fresh solver under the
        # input assumptions (the engine's path condition would only slow the bit-blaster down)
        inputs = _z3.And(fpsym.finite_bounded(lo, 2.0**60), fpsym.finite_bounded(hi, 2.0**60),
                         fpsym.finite_bounded(fixed, 2.0**60), _z3.fpLT(lo.e, hi.e))
        claims = [('orientation', _z3.fpEQ(c1.e, c2.e)),
                  ('fixed coordinate', _z3.And(_z3.fpEQ(f1.e, fixed.e), _z3.fpEQ(f2.e, fixed.e)))]
        if with_bounds:
            claims += [('lo <= mid', _z3.fpLEQ(lo.e, c1.e)), ('mid <= hi', _z3.fpLEQ(c1.e, hi.e))]
        for name, claim in claims:
            sv = _z3.Solver()
            sv.set('timeout', 300000)
            sv.add(inputs, _z3.Not(claim))
            t0 = time.time()
            r = sv.check()
            eng.stats['solver_s'] += time.time() - t0
            eng.stats['verdict_queries'] += 1
            if r == _z3.unsat:
                eng.stats['verdict_unsat'] += 1
            elif r == _z3.sat:
                eng.stats['verdict_sat'] += 1
                m = sv.model()
                return False, (fpsym.model_float(m, lo), fpsym.model_float(m, hi), fpsym.model_float(m, fixed)), name
            else:
                raise Inconclusive('solver unknown on the QF_FP claim "%s"' % name)
        return True, None, None
    try:
        for pr in eng.explore(body):
            res['evaluations'] += 1
            res['nontrivial'] += 1
            bad, vals = None, None
            if pr.status == 'exc':
                if isinstance(pr.exc, (TypeError, AttributeError, NotImplementedError)) and 'FPV' in str(pr.exc):
                    # an operation the Float64 model does not have (round, sqrt, ...): a limit of the harness, not a
                    # verdict about the code (the real-valued exploration still decides tiling and ancestry)
                    raise Inconclusive('operation outside the Float64 model: %r at %s' % (pr.exc, pr.tb[-1]))
                _, m = eng.feasible(True)
                bad = '%r at %s' % (pr.exc, pr.tb[-1])
            elif not pr.value[0]:
                bad, vals = 'QF_FP claim "%s" about the midpoint vertex fails in double arithmetic' % pr.value[2], pr.value[1]
            if bad:
                rp = dict(kind='fp-midpoint', axis=axis, values=list(vals) if vals else None)
                res['violations'].append(dict(signature='C02:fp-midpoint', what='%s [axis %d, lo/hi/fixed = %s]' % (bad, axis, vals),
                                              replay=rp, reproduced=replay(rp)))
        res['samples'].append(dict(fp_midpoint_axis=axis))
    except Inconclusive as e:
        res['inconclusive'].append('fp midpoint axis %d: %s' % (axis, e))
    res['stats'] = eng.stats
    return res


def any_worker(case):
    if case[0] == 'fp':
        return fp_midpoint_worker((case[1], case[2]))
    return worker(case)


def run(out, mode='C02'):
    cases, cfg = cases_for(out.tier, mode, out.seed)
    fpc = [('fp', 0, out.tier != 'quick'), ('fp', 1, out.tier != 'quick')] if mode == 'C02' else []
    allc = fpc + cases   # the two long QF_FP queries first, so that they overlap with the mesh exploration
    results = report.pmap('checks.c02', 'any_worker', allc)
    for c, r in zip(allc, results):
        if c[0] == 'fp':
            report.merge_worker(out, r, part='QF_FP lemma: midpoint of __bisect_edge (axis %d)' % c[1])
        else:
            report.merge_worker(out, r, part='%s depth %d' % (c[0], c[1]))
    out.bounds = dict(grids={g: dict(zip(('time_slabs', 'space_cells', 'glued'), meshsym.GRIDS[g]))
                             for g in cfg['grids']},
                      history_depth=cfg['depth'],
                      operations=['refine_time(leaf)', 'refine_space(leaf)', 'refine(leaf)', 'uniform_refine',
                                  'uniform_refine_space'],
                      grid_coordinates='symbolic reals, strictly increasing (all values at once)')
    out.outside = ['histories longer than the stated depth', 'floating-point rounding other than the midpoint lemma (coordinates are reals)',
                   'Doerfler and grading as operations (covered by C06 / C19)', 'initial grids larger than listed']
    out.assumptions = ['real arithmetic for coordinates (bisection midpoints of dyadic depth <= 6 are exact in binary64)',
                       'Ref (vf/meshref.py): dyadic rectangles + geometric adjacency + least closure fixpoint',
                       'print replaced by a no-op']
    states = sum(p.get('states', 0) for p in out.parts.values())
    trans = sum(p.get('transitions', 0) for p in out.parts.values())
    out.coverage['states'] = states
    out.coverage['transitions'] = trans
    out.coverage['traces_validated_against_impl'] = states
    out.coverage['exhaustive'] = not out.inconclusive
    out.coverage['rule'] = ('every history of the stated depth over the stated operations on every listed root grid '
                            '(discrete history shapes enumerated as paths, grid coordinates symbolic); a path is '
                            'non-trivial when it refined beyond one bisection')
    out.functions.update(['src/mesh.py:Mesh.__init__', 'src/mesh.py:Mesh.refine_axis', 'src/mesh.py:Mesh.refine',
                          'src/mesh.py:Mesh.uniform_refine', 'src/mesh.py:Mesh.uniform_refine_space',
                          'src/mesh.py:Mesh.__bisect_edge', 'src/mesh.py:Edge.bisect',
                          'src/mesh.py:Edge.neighbour_elements', 'src/mesh.py:Element.__init__',
                          'src/mesh.py:Mesh.gmsh'])
