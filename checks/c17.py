"""C17 (thin, decidable part): assembly paths and the disk cache are transparent.

bilform_matrix and InitialOperator.linform_vector are executed with
  - the space integration / per-element load replaced by uninterpreted functions of the element geometry,
  - symbolic time intervals (so the causality skips are live branch conditions),
  - mp.Pool replaced by an in-order map in the calling process,
  - the file system replaced by a model: np.save stores into a dict keyed by file name, np.load returns the stored
    array, or - by `choice` - finds no file / raises ValueError / EOFError / OSError (truncated, corrupt, unreadable),
  - hashlib.md5 replaced by an injective stand-in (the digest *is* the input), i.e. md5 is assumed collision free.
Decided per path (identity of canonical forms): every entry equals bilform(trial_j, test_i) resp. linform(elem_j)[0]
whichever path produced it (inline, serial, pool stand-in, cold cache, warm cache, unreadable cache), for rectangular
lists on both sides of the N*M = 100 threshold; two calls against one cache directory with a different trial (or
test) list of the same length never see each other's entry.
Not decided (outside the reach of this technique): real process pools, worker counts, chunking, partial writes /
crash points of np.save, md5 collisions."""
import importlib
from fractions import Fraction

import numpy as np
import z3

from checks import c04
from vf import models, report, slsym
from vf.sym import Engine, Inconclusive, SR, z3bool

LEVEL = 'other'


class FS:
    """File-system model shared by np.load / np.save of one harness run."""
    def __init__(self, eng, faulty):
        self.eng, self.files, self.faulty = eng, {}, faulty
        self.loads, self.saves = [], []

    def save(self, fn, arr):
        self.saves.append(fn)
        self.files[fn] = np.array(arr, dtype=object).copy()

    def load(self, fn):
        self.loads.append(fn)
        if fn not in self.files:
            raise FileNotFoundError(fn)
        if self.faulty:
            k = self.eng.choice(4)
            if k == 1:
                raise ValueError('truncated file')
            if k == 2:
                raise EOFError('no data left in file')
            if k == 3:
                raise OSError('failed to interpret file as a pickle')
        return self.files[fn].copy()


class Digest:
    def __init__(self, data):
        self.data = data

    def hexdigest(self):
        return 'md5<' + self.data.decode() + '>'


def cpu_for(n_test, n_trial):
    """Worker count reported by the stand-in for mp.cpu_count(): 4, except for the wide matrices, which are there to
    put the trial count above 16 x workers (chunk sizes are computed from it) with a count that is not a multiple."""
    return {17: 1, 33: 2}.get(n_trial, 4)


def patched_sl(eng, fs, cpu=4):
    SL, SLE, Q = slsym.load_sl()
    SL.mp = type('MP', (), dict(Pool=c04.FakePool, cpu_count=staticmethod(lambda: cpu)))()
    SL.np = models.NpProxy(dict(exp=SL.np.exp, sqrt=models.sqrt_model, zeros=models.zeros_model, array=models.array_model,
                                load=fs.load, save=fs.save))
    SL.hashlib = type('H', (), dict(md5=staticmethod(lambda b: Digest(b))))()
    return SL


def elems_for(eng, gamma, cells, tm, spec):
    t0, t1 = SR.const(0), SR.const(1)
    slabs = [(t0, tm), (tm, t1), (t0, t1)]
    return [slsym.Elem(*slabs[s], slsym.exact(cells[c][0]), slsym.exact(cells[c][1]), cells[c][2]) for (s, c) in spec]


def matrix_run(eng, n_test, n_trial, path, scenario):
    fs = FS(eng, faulty=(scenario == 'corrupt'))
    SL = patched_sl(eng, fs, cpu_for(n_test, n_trial))
    gamma = slsym.curve_pieces('UnitSquare')
    cells = slsym.space_leaves(gamma, 4)
    tm = eng.real('tm')
    eng.assume(tm > 0)
    eng.assume(tm < 1)
    op = SL.SingleLayerOperator(slsym.FakeMesh(gamma), quad_order=1,
                                cache_dir=None if scenario == 'nocache' else '/cache')

    def fake_integrate(f, p, q, r, s):
        probe = np.array([[p + (q - p) * Fraction(1, 3)], [r + (s - r) * Fraction(2, 3)]], dtype=object)
        fv = f(probe)
        fv = fv[0] if isinstance(fv, np.ndarray) else fv
        return eng.apply('I', SR.lift(p), SR.lift(q), SR.lift(r), SR.lift(s), SR.lift(fv))
    setattr(op, '_SingleLayerOperator__integrate', fake_integrate)
    tests = elems_for(eng, gamma, cells, tm, [(k % 3, (3 * k) % 16) for k in range(n_test)])
    trialsA = elems_for(eng, gamma, cells, tm, [((k + 1) % 3, (5 * k + 1) % 16) for k in range(n_trial)])
    trialsB = elems_for(eng, gamma, cells, tm, [((k + 2) % 3, (7 * k + 2) % 16) for k in range(n_trial)])
    testsB = elems_for(eng, gamma, cells, tm, [((k + 1) % 3, (3 * k + 5) % 16) for k in range(n_test)])
    use_mp = path == 'pool'
    bad = []

    def compare(mat, T, R, label):
        if tuple(mat.shape) != (len(T), len(R)):
            bad.append('%s: shape %r' % (label, mat.shape))
            return
        for i, te in enumerate(T):
            for j, tr in enumerate(R):
                ok, _ = eng.prove_identity(mat[i, j], op.bilform(tr, te), label)
                if not ok:
                    bad.append('%s: entry (%d,%d) is not bilform(trial_j, test_i)' % (label, i, j))
                    return
    m1 = op.bilform_matrix(tests, trialsA, use_mp=use_mp)
    compare(m1, tests, trialsA, 'first call')
    if n_test == n_trial:
        # the SAME list object on both sides (what the default arguments do): the matrix is not symmetric - test and
        # trial elements with equal end time but different start time, causal one way only
        compare(op.bilform_matrix(tests, tests, use_mp=use_mp), tests, tests, 'same list object as test and trial')
        compare(op.bilform_matrix(tests, use_mp=use_mp), tests, tests, 'trial list defaulted to the test list')
    if scenario != 'nocache':
        m2 = op.bilform_matrix(tests, trialsA, use_mp=use_mp)
        compare(m2, tests, trialsA, 'second call, same lists (%s cache)' % scenario)
        m3 = op.bilform_matrix(tests, trialsB, use_mp=use_mp)
        compare(m3, tests, trialsB, 'other trial list of the same length against the same cache')
        m4 = op.bilform_matrix(testsB, trialsA, use_mp=use_mp)
        compare(m4, testsB, trialsA, 'other test list of the same length against the same cache')
        if n_test * n_trial >= 100 and scenario == 'warm' and not fs.saves:
            bad.append('cache enabled but nothing was stored')
        # real mesh elements (the repository's own Element.__repr__ enters the cache key): two lists of equal length
        # whose coordinates differ only in the 13th significant digit must not share a cache entry
        if n_test * n_trial >= 100:
            M = importlib.import_module('src.mesh')
            lists = []
            for x1 in (1.0, 1.0 + 2.0**-40):
                msh = M.Mesh(glue_space=True, initial_space_mesh=[0, x1, 2.0, 3.0, 4.0],
                             initial_time_mesh=[0, 0.5, 1.0 + (x1 - 1.0)])
                msh.uniform_refine_space() if n_test > 8 else None
                es = list(msh.leaf_elements)[:max(n_test, n_trial)]
                for e in es:
                    e.gamma_space = cells[0][2]
                lists.append(es)
            if len(lists[0]) >= max(n_test, n_trial):
                T1, R1 = lists[0][:n_test], lists[0][:n_trial]
                T2, R2 = lists[1][:n_test], lists[1][:n_trial]
                compare(op.bilform_matrix(T1, R1, use_mp=use_mp), T1, R1, 'real mesh elements, first list')
                compare(op.bilform_matrix(T2, R2, use_mp=use_mp), T2, R2,
                        'real mesh elements differing from the cached list in the 13th digit')
    return bad, len(fs.loads), len(fs.saves)


def matrix_worker(case):
    n_test, n_trial, path, scenario = case
    eng = Engine(timeout_ms=30000)
    res = dict(stats=None, violations=[], inconclusive=[], samples=[], functions=[
        'src/single_layer.py:SingleLayerOperator.bilform_matrix', 'src/single_layer.py:MP_SL_matrix_col',
        'src/single_layer.py:SingleLayerOperator.bilform'], evaluations=0, nontrivial=0)
    try:
        for pr in eng.explore(lambda: matrix_run(eng, n_test, n_trial, path, scenario)):
            res['evaluations'] += 1
            if pr.status == 'exc':
                bad = ['exception %r at %s' % (pr.exc, pr.tb[-1])]
            else:
                bad = pr.value[0]
                res['nontrivial'] += 1
                if len(res['samples']) < 1:
                    res['samples'].append(dict(case=list(case), loads=pr.value[1], saves=pr.value[2], choices=pr.choices))
            for b in bad[:1]:
                rp = dict(kind='matrix', case=list(case), choices=pr.choices)
                res['violations'].append(dict(signature='matrix:%s:%s' % (path, scenario), what='bilform_matrix (%d x %d, '
                                              '%s path, %s): %s' % (n_test, n_trial, path, scenario, b), replay=rp,
                                              reproduced=replay(rp)))
            if res['violations']:
                break
    except Inconclusive as e:
        res['inconclusive'].append('matrix %r: %s' % (case, e))
    res['stats'] = eng.stats
    return res


# -- load vector ------------------------------------------------------------------------------------------
def vector_run(eng, n, path, scenario):
    fs = FS(eng, faulty=(scenario == 'corrupt'))
    IP = importlib.import_module('src.initial_potential')
    IP.print = models.noprint
    IP.mp = type('MP', (), dict(Pool=c04.FakePool, cpu_count=staticmethod(lambda: 4)))()
    IP.np = models.NpProxy(dict(zeros=models.zeros_model, array=models.array_model, load=fs.load, save=fs.save))
    IP.hashlib = type('H', (), dict(md5=staticmethod(lambda b: Digest(b))))()
    gamma = slsym.curve_pieces('UnitSquare')
    cells = slsym.space_leaves(gamma, 4)
    tm = eng.real('tm')
    eng.assume(tm > 0)
    eng.assume(tm < 1)
    op = IP.InitialOperator.__new__(IP.InitialOperator)
    op.bdr_mesh = slsym.FakeMesh(gamma)
    op.cache_dir = None if scenario == 'nocache' else '/cache'
    op.problem = 'P'
    op.linform = lambda e: (eng.apply('lin', SR.lift(e.time_interval[0]), SR.lift(e.time_interval[1]),
                                      SR.lift(e.space_interval[0]), SR.lift(e.space_interval[1])), [])
    # elements of different widths in an order that is neither sorted nor an involution away from sorted
    wide = slsym.space_leaves(gamma, 1) + slsym.space_leaves(gamma, 2)
    mixed = []
    for k in range(n):
        src = (cells, wide)[k % 2 == 1] if k % 3 else slsym.space_leaves(gamma, 2)
        mixed.append(src[(5 * k + 1) % len(src)])
    A = [slsym.Elem(SR.const(0) if k % 3 else tm, tm if k % 3 else SR.const(1), slsym.exact(c_[0]), slsym.exact(c_[1]), c_[2])
         for k, c_ in enumerate(mixed)]
    B = elems_for(eng, gamma, cells, tm, [((k + 1) % 3, (5 * k + 1) % 16) for k in range(n)])
    bad = []

    def compare(vec, E, label):
        if len(vec) != len(E):
            bad.append('%s: length' % label)
            return
        for j, e in enumerate(E):
            ok, _ = eng.prove_identity(vec[j], op.linform(e)[0], label)
            if not ok:
                bad.append('%s: entry %d is not linform(elem_%d)[0]' % (label, j, j))
                return
    use_mp = path == 'pool'
    compare(op.linform_vector(elems=A, use_mp=use_mp), A, 'first call')
    if scenario != 'nocache':
        compare(op.linform_vector(elems=A, use_mp=use_mp), A, 'second call, same list (%s cache)' % scenario)
        compare(op.linform_vector(elems=B, use_mp=use_mp), B, 'other list of the same length against the same cache')
        # another problem (other initial datum) on the same curve, same elements, same cache directory
        op2 = IP.InitialOperator.__new__(IP.InitialOperator)
        op2.bdr_mesh, op2.cache_dir, op2.problem = op.bdr_mesh, op.cache_dir, 'Q'
        op2.linform = lambda e: (eng.apply('lin2', SR.lift(e.time_interval[0]), SR.lift(e.time_interval[1]),
                                           SR.lift(e.space_interval[0]), SR.lift(e.space_interval[1])), [])
        v2 = op2.linform_vector(elems=A, use_mp=use_mp)
        for j, e in enumerate(A):
            ok, _ = eng.prove_identity(v2[j], op2.linform(e)[0], 'other problem')
            if not ok:
                bad.append('another problem on the same curve and elements got the cached vector of the first problem')
                break
    return bad, len(fs.loads), len(fs.saves)


def vector_worker(case):
    n, path, scenario = case
    eng = Engine(timeout_ms=30000)
    res = dict(stats=None, violations=[], inconclusive=[], samples=[], functions=[
        'src/initial_potential.py:InitialOperator.linform_vector', 'src/initial_potential.py:MP_M0_val'],
        evaluations=0, nontrivial=0)
    try:
        for pr in eng.explore(lambda: vector_run(eng, n, path, scenario)):
            res['evaluations'] += 1
            if pr.status == 'exc':
                bad = ['exception %r at %s' % (pr.exc, pr.tb[-1])]
            else:
                bad = pr.value[0]
                res['nontrivial'] += 1
                if len(res['samples']) < 1:
                    res['samples'].append(dict(case=list(case), loads=pr.value[1], saves=pr.value[2]))
            for b in bad[:1]:
                rp = dict(kind='vector', case=list(case), choices=pr.choices)
                res['violations'].append(dict(signature='vector:%s:%s' % (path, scenario), what='linform_vector (%d '
                                              'elements, %s path, %s): %s' % (n, path, scenario, b), replay=rp,
                                              reproduced=replay(rp)))
            if res['violations']:
                break
    except Inconclusive as e:
        res['inconclusive'].append('vector %r: %s' % (case, e))
    res['stats'] = eng.stats
    return res


def replay(rp):
    """Concrete replay on the unmodified modules with a real temporary cache directory and plain floats (the pool
    is still the in-order stand-in; unreadable cache = the stored file truncated to half its length)."""
    import os
    import shutil
    import tempfile
    kind = rp['kind']
    tmp = tempfile.mkdtemp(prefix='c17_')
    try:
        gamma = slsym.curve_pieces('UnitSquare')
        cells = slsym.space_leaves(gamma, 4)
        tm = 0.375

        def mk(spec):
            slabs = [(0.0, tm), (tm, 1.0), (0.0, 1.0)]
            return [slsym.Elem(*slabs[s], cells[c][0], cells[c][1], cells[c][2]) for (s, c) in spec]
        if kind == 'matrix':
            n_test, n_trial, path, scenario = rp['case']
            SL = importlib.import_module('src.single_layer')
            with slsym.unpatched():
                saved = (SL.mp, SL.__dict__.get('hashlib'))
                import hashlib
                import multiprocessing
                SL.hashlib = hashlib
                SL.mp = type('MP', (), dict(Pool=c04.FakePool, cpu_count=staticmethod(lambda: cpu_for(n_test, n_trial))))()
                try:
                    op = SL.SingleLayerOperator(slsym.FakeMesh(gamma), quad_order=2,
                                                cache_dir=None if scenario == 'nocache' else tmp)
                    T = mk([(k % 3, (3 * k) % 16) for k in range(n_test)])
                    RA = mk([((k + 1) % 3, (5 * k + 1) % 16) for k in range(n_trial)])
                    RB = mk([((k + 2) % 3, (7 * k + 2) % 16) for k in range(n_trial)])
                    TB = mk([((k + 1) % 3, (3 * k + 5) % 16) for k in range(n_test)])

                    def wrong(mat, TT, RR):
                        return tuple(mat.shape) != (len(TT), len(RR)) or any(
                            float(mat[i, j]) != float(op.bilform(tr, te)) for i, te in enumerate(TT)
                            for j, tr in enumerate(RR))
                    use_mp = path == 'pool'
                    if wrong(op.bilform_matrix(T, RA, use_mp=use_mp), T, RA):
                        return True
                    if n_test == n_trial and (wrong(op.bilform_matrix(T, T, use_mp=use_mp), T, T) or
                                              wrong(op.bilform_matrix(T, use_mp=use_mp), T, T)):
                        return True
                    if scenario != 'nocache':
                        if scenario == 'corrupt':
                            for fn in os.listdir(tmp):
                                p = os.path.join(tmp, fn)
                                data = open(p, 'rb').read()
                                open(p, 'wb').write(data[:len(data) // 2])
                        if wrong(op.bilform_matrix(T, RA, use_mp=use_mp), T, RA):
                            return True
                        if wrong(op.bilform_matrix(T, RB, use_mp=use_mp), T, RB):
                            return True
                        if wrong(op.bilform_matrix(TB, RA, use_mp=use_mp), TB, RA):
                            return True
                        if n_test * n_trial >= 100:
                            M = importlib.import_module('src.mesh')
                            lists = []
                            for x1 in (1.0, 1.0 + 2.0**-40):
                                msh = M.Mesh(glue_space=True, initial_space_mesh=[0, x1, 2.0, 3.0, 4.0],
                                             initial_time_mesh=[0, 0.5, 1.0 + (x1 - 1.0)])
                                if n_test > 8:
                                    msh.uniform_refine_space()
                                es = list(msh.leaf_elements)[:max(n_test, n_trial)]
                                for e in es:
                                    e.gamma_space = cells[0][2]
                                lists.append(es)
                            if len(lists[0]) >= max(n_test, n_trial):
                                for es in lists:
                                    TT, RR = es[:n_test], es[:n_trial]
                                    if wrong(op.bilform_matrix(TT, RR, use_mp=use_mp), TT, RR):
                                        return True
                    return False
                except Exception:
                    return True
                finally:
                    SL.mp = saved[0]
        else:
            n, path, scenario = rp['case']
            IP = importlib.import_module('src.initial_potential')
            import hashlib
            saved = (IP.np, IP.mp, IP.__dict__.get('hashlib'))
            IP.np, IP.hashlib = np, hashlib
            IP.mp = type('MP', (), dict(Pool=c04.FakePool, cpu_count=staticmethod(lambda: 4)))()
            try:
                op = IP.InitialOperator.__new__(IP.InitialOperator)
                op.bdr_mesh = slsym.FakeMesh(gamma)
                op.cache_dir = None if scenario == 'nocache' else tmp
                op.problem = 'P'
                op.linform = lambda e: (hash((e.time_interval, e.space_interval)) % 1000 / 7.0, [])
                wide = slsym.space_leaves(gamma, 1) + slsym.space_leaves(gamma, 2)
                mixed = []
                for k in range(n):
                    src = (cells, wide)[k % 2 == 1] if k % 3 else slsym.space_leaves(gamma, 2)
                    mixed.append(src[(5 * k + 1) % len(src)])
                A = [slsym.Elem(0.0 if k % 3 else tm, tm if k % 3 else 1.0, c_[0], c_[1], c_[2]) for k, c_ in enumerate(mixed)]
                B = mk([((k + 1) % 3, (5 * k + 1) % 16) for k in range(n)])

                def wrong(vec, E):
                    return len(vec) != len(E) or any(float(vec[j]) != op.linform(e)[0] for j, e in enumerate(E))
                use_mp = path == 'pool'
                if wrong(op.linform_vector(elems=A, use_mp=use_mp), A):
                    return True
                if scenario != 'nocache':
                    if scenario == 'corrupt':
                        for fn in os.listdir(tmp):
                            p = os.path.join(tmp, fn)
                            data = open(p, 'rb').read()
                            open(p, 'wb').write(data[:len(data) // 2])
                    if wrong(op.linform_vector(elems=A, use_mp=use_mp), A):
                        return True
                    if wrong(op.linform_vector(elems=B, use_mp=use_mp), B):
                        return True
                    op2 = IP.InitialOperator.__new__(IP.InitialOperator)
                    op2.bdr_mesh, op2.cache_dir, op2.problem = op.bdr_mesh, op.cache_dir, 'Q'
                    op2.linform = lambda e: (1000.0 + hash((e.time_interval, e.space_interval)) % 1000 / 7.0, [])
                    v2 = op2.linform_vector(elems=A, use_mp=use_mp)
                    if len(v2) != len(A) or any(float(v2[j]) != op2.linform(e)[0] for j, e in enumerate(A)):
                        return True
                return False
            except Exception:
                return True
            finally:
                IP.np, IP.mp = saved[0], saved[1]
    finally:
        shutil.rmtree(tmp, ignore_errors=True)


def run(out):
    quick = out.tier == 'quick'
    sizes = [(3, 4), (9, 11), (10, 10), (11, 10), (7, 17)] if quick else [(3, 4), (9, 11), (10, 10), (11, 10), (7, 17), (4, 33),
                                                                          (2, 50), (25, 4), (1, 100), (12, 12)]
    cases = []
    for (nt, nr) in sizes:
        for path in ('serial', 'pool'):
            for scenario in ('nocache', 'warm', 'corrupt'):
                if nt * nr < 100 and path == 'pool':
                    continue  # below the threshold the inline path is taken whatever use_mp says: once is enough
                cases.append((nt, nr, path, scenario))
    for c, r in zip(cases, report.pmap('checks.c17', 'matrix_worker', cases)):
        report.merge_worker(out, r, part='matrix %s/%s' % (c[2], c[3]))
    vc = [(n, path, sc) for n in ((5, 12) if quick else (1, 5, 12, 30)) for path in ('serial', 'pool')
          for sc in ('nocache', 'warm', 'corrupt')]
    for c, r in zip(vc, report.pmap('checks.c17', 'vector_worker', vc)):
        report.merge_worker(out, r, part='vector %s/%s' % (c[1], c[2]))
    out.bounds = dict(matrix_sizes=[list(s) for s in sizes], vector_sizes=sorted(set(c[0] for c in vc)),
                      cache_scenarios=['no cache', 'cold then warm', 'stored file unreadable (absent / ValueError / '
                                       'EOFError / OSError by choice)'],
                      histories='first call, same lists again, other trial list of equal length, other test list of '
                                'equal length - all against one cache directory')
    out.outside = ['real process pools: scheduling, fork hand-over of globals; worker counts other than 1, 2, 4 (the stand-in reports 1 for 17 trial elements, 2 for 33, else 4)',
                   'crash points / partial writes of np.save', 'md5 collisions (md5 modelled as injective)',
                   'bitwise equality of floats across paths (entries are compared as symbolic values)',
                   'different curves sharing a cache directory']
    out.assumptions = ['file system, md5, pool are models (vf/checks/c17.py); space integration / linform uninterpreted']
    out.coverage['exhaustive'] = not out.inconclusive
    out.coverage['rule'] = 'per (size, path, cache scenario): every fault choice and every time ordering is one path'
