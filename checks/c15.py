"""C15: derived quadrature schemes preserve measure and polynomial exactness.

Every scheme class of src/quadrature.py is executed on
  S  exactly-exact rational base rules (Simpson: degree 3, Boole: degree 5, 2-point open Newton-Cotes: degree 1, all as
     real QuadScheme1D objects) and *symbolic target boxes* (side lengths within [1e-4, 1e3]): for every monomial of total
     degree <= N (tensor 2-D / 3-D, per-variable degree <= N), N-1 (2-D Duffy, symmetric on symmetric monomials and
     non-symmetric, all mirrors), N-2 (both 3-D Duffy schemes, all mirrors) the value equals the closed form as a
     polynomial identity in the box coordinates; the next degree must FAIL (tight-boundary twin); weights sum to the
     measure; mirroring twice gives back points and weights; symmetric = non-symmetric Duffy on symmetric monomials;
     all derived schemes are built from ONE shared base object, which is re-checked afterwards (no aliasing).
  T  the tabulated base rules (real tables / leggauss as exact rationals of their doubles) on the unit box: same
     monomial ranges within 1e-12 (ground rational facts decided by z3) - thorough tier only for the larger rules.
Monotone convergence on log-singular integrands is not decided."""
import importlib
import itertools
from fractions import Fraction

import numpy as np
import z3

from vf import models, report, slsym
from vf.sym import Engine, Inconclusive, SR, z3bool

LEVEL = 'other'

BASES = {
    'midpoint2': (1, [Fraction(1, 4), Fraction(3, 4)], [Fraction(1, 2), Fraction(1, 2)]),
    # nodes deliberately NOT in increasing order (a rule is a set of (node, weight) pairs; three shipped log tables
    # are stored out of order) and not symmetric about 1/2
    'radau2-unordered': (2, [Fraction(2, 3), Fraction(0)], [Fraction(3, 4), Fraction(1, 4)]),
    'simpson': (3, [Fraction(0), Fraction(1, 2), Fraction(1)], [Fraction(1, 6), Fraction(4, 6), Fraction(1, 6)]),
    'boole': (5, [Fraction(k, 4) for k in range(5)],
              [Fraction(7, 90), Fraction(32, 90), Fraction(12, 90), Fraction(32, 90), Fraction(7, 90)]),
}


def load():
    Q = importlib.import_module('src.quadrature')
    Q.np = models.NpProxy(dict(array=models.array_model, isclose=isclose_np, allclose=allclose_np))
    return Q


def isclose_np(a, b, rtol=1e-05, atol=1e-08, equal_nan=False):
    """np.isclose(a, b) = |a - b| <= atol + rtol*|b| (documented), on symbolic scalars."""
    if models._has_sym(a) or models._has_sym(b):
        a, b = SR.lift(a), SR.lift(b)
        return bool(abs(a - b) <= SR.const(atol) + SR.const(rtol) * abs(b))
    return np.isclose(a, b, rtol, atol, equal_nan)


def allclose_np(a, b, rtol=1e-05, atol=1e-08, equal_nan=False):
    if models._has_sym(a) or models._has_sym(b):
        aa, bb = np.broadcast_arrays(np.asarray(a, dtype=object), np.asarray(b, dtype=object))
        return all(isclose_np(x, y, rtol, atol) for x, y in zip(aa.flat, bb.flat))
    return np.allclose(a, b, rtol, atol, equal_nan)


def base_scheme(Q, name):
    deg, pts, wts = BASES[name]
    return deg, Q.QuadScheme1D(np.array([SR.const(p) for p in pts], dtype=object),
                               np.array([SR.const(w) for w in wts], dtype=object))


def mono_int(lo, hi, k):
    return (hi**(k + 1) - lo**(k + 1)) * Fraction(1, k + 1)


def sym_box(eng, names, concrete=None):
    """Intervals [lo, lo + len] with symbolic lo and symbolic length in [1e-4, 1e3]."""
    out = []
    for nm in names:
        if concrete:
            lo, ln = concrete[nm]
        else:
            lo, ln = eng.real(nm + '_lo'), eng.real(nm + '_len')
            eng.assume(ln >= Fraction(1, 10**4))
            eng.assume(ln <= 1000)
            eng.assume(lo >= -1000)
            eng.assume(lo <= 1000)
        out.append((lo, lo + ln))
    return out


def monos(dim, maxdeg, per_var=False):
    rng = range(maxdeg + 1)
    for e in itertools.product(rng, repeat=dim):
        if per_var or sum(e) <= maxdeg:
            yield e


def f_of(e):
    def f(x):
        v = None
        for k, p in enumerate(e):
            t = x[k]**p if p else (x[k] * 0 + 1)
            v = t if v is None else v * t
        return v
    return f


def f1_of(p):
    return lambda x: x**p if p else x * 0 + 1


def scheme_checks(eng, Q, basename, fail, concrete=None):
    """All derived schemes from one shared base; returns number of identities examined."""
    N, base = base_scheme(Q, basename)
    count = [0]
    (ax, bx), (ay, by), (az, bz) = sym_box(eng, ['x', 'y', 'z'], concrete)

    def check(val, want, what, must_hold=True):
        count[0] += 1
        ok, _ = eng.prove_identity(val, want, what)
        if ok != must_hold:
            fail('exact' if must_hold else 'tight', what + ((' is not integrated exactly' if ': x^' in what else ' does not hold') if must_hold else
                                                             ' is integrated exactly although beyond the advertised degree '
                                                             '(vacuity twin failed)'))

    def check_1d(s, label):
        for p in range(0, N + 2):
            check(s.integrate(f1_of(p), ax, bx), mono_int(ax, bx, p), '%s on [a,b]: x^%d' % (label, p), must_hold=p <= N)
        tot = SR.const(0)
        for w in s.weights:
            tot = tot + w
        check(tot, SR.const(1), label + ': weights sum to 1')

    def check_2d(s, label, maxdeg, symmetric_only=False, per_var=False):
        for e in monos(2, maxdeg + 1, per_var):
            within = (max(e) <= maxdeg) if per_var else (sum(e) <= maxdeg)
            if symmetric_only:
                # symmetric rule: only symmetric integrands x^i y^j + x^j y^i on a square box [a,b]^2
                f = lambda x, e=e: f_of(e)(x) + f_of(e[::-1])(x)
                want = 2 * mono_int(ax, bx, e[0]) * mono_int(ax, bx, e[1])
                val = s.integrate(f, ax, bx, ax, bx)
            else:
                f = f_of(e)
                want = mono_int(ax, bx, e[0]) * mono_int(ay, by, e[1])
                val = s.integrate(f, ax, bx, ay, by)
            if within:
                check(val, want, '%s: x^%d y^%d' % (label, e[0], e[1]))
            elif (sum(e) == maxdeg + 1 and not per_var) or (per_var and max(e) == maxdeg + 1 and min(e) == 0):
                # the boundary twin only has to fail for SOME monomial of the next degree: collect
                beyond.setdefault(label, []).append(eng.prove_identity(val, want, 'twin')[0])
                count[0] += 1

    def check_3d(s, label, maxdeg, per_var=False):
        for e in monos(3, maxdeg + 1, per_var):
            within = (max(e) <= maxdeg) if per_var else (sum(e) <= maxdeg)
            f = f_of(e)
            want = mono_int(ax, bx, e[0]) * mono_int(ay, by, e[1]) * mono_int(az, bz, e[2])
            if within:
                check(s.integrate(f, ax, bx, ay, by, az, bz), want, '%s: x^%d y^%d z^%d' % (label, *e))
            elif (sum(e) == maxdeg + 1 and not per_var and max(e) <= maxdeg + 1):
                if e in ((maxdeg + 1, 0, 0), (0, maxdeg + 1, 0), (0, 0, maxdeg + 1)) or sum(1 for v in e if v) >= 2:
                    beyond.setdefault(label, []).append(
                        eng.prove_identity(s.integrate(f, ax, bx, ay, by, az, bz), want, 'twin')[0])
                    count[0] += 1

    beyond = {}
    # 1-D: affine map, mirror
    check_1d(base, 'QuadScheme1D(%s)' % basename)
    m = base.mirror()
    check_1d(m, 'mirror')
    mm = Q.QuadScheme1D(m.points, m.weights).mirror()
    for p, q in zip(mm.points, base.points):
        check(p, q, 'mirror twice gives back the nodes')
    for p, q in zip(mm.weights, base.weights):
        check(p, q, 'mirror twice gives back the weights')
    # 2-D tensor and mirrors
    t2 = Q.ProductScheme2D(base, base)
    check_2d(t2, 'ProductScheme2D', N, per_var=True)
    check_2d(t2.mirror_x(), 'ProductScheme2D.mirror_x', N, per_var=True)
    check_2d(t2.mirror_y(), 'ProductScheme2D.mirror_y', N, per_var=True)
    mx2 = Q.QuadScheme2D(t2.mirror_x().points, t2.mirror_x().weights).mirror_x()
    for p, q in zip(np.asarray(mx2.points).flat, np.asarray(t2.points).flat):
        check(p, q, 'mirror_x twice gives back the 2-D nodes')
    # each mirror of one and the same scheme object reflects exactly its own coordinate (whatever was asked first)
    def check_mirrors(sch, label, dim):
        names = ['mirror_x', 'mirror_y', 'mirror_z'][:dim]
        for order in (names, names[::-1]):
            for nm in order:
                getattr(sch, nm)()
        for k, nm in enumerate(names):
            m_ = getattr(sch, nm)()
            for ax in range(dim):
                for p_, q_ in zip(np.asarray(m_.points[ax]).flat, np.asarray(sch.points[ax]).flat):
                    check(p_, (1 - q_) if ax == k else q_, '%s.%s: coordinate %d of the nodes' % (label, nm, ax))
            for p_, q_ in zip(np.asarray(m_.weights).flat, np.asarray(sch.weights).flat):
                check(p_, q_, '%s.%s: weights' % (label, nm))
        # compositions on the (possibly cached) mirror objects: two different axes reflect both coordinates, the same
        # axis twice gives back the rule - in either order
        for k1, n1 in enumerate(names):
            for k2, n2 in enumerate(names):
                m2 = getattr(getattr(sch, n1)(), n2)()
                for ax in range(dim):
                    flips = (ax == k1) != (ax == k2)
                    for p_, q_ in zip(np.asarray(m2.points[ax]).flat, np.asarray(sch.points[ax]).flat):
                        check(p_, (1 - q_) if flips else q_, '%s.%s().%s(): coordinate %d of the nodes' % (label, n1, n2, ax))
    check_mirrors(Q.ProductScheme2D(base, base), 'ProductScheme2D (fresh object, both mirrors requested)', 2)
    check_mirrors(t2, 'ProductScheme2D', 2)
    # 2-D Duffy
    if N >= 1:
        d_ns = Q.DuffyScheme2D(t2, symmetric=False)
        d_s = Q.DuffyScheme2D(t2, symmetric=True)
        check_2d(d_ns, 'DuffyScheme2D(non-symmetric)', N - 1)
        check_mirrors(d_ns, 'DuffyScheme2D(non-symmetric)', 2)
        check_2d(d_ns.mirror_x(), 'DuffyScheme2D(non-symmetric).mirror_x', N - 1)
        check_2d(d_ns.mirror_y(), 'DuffyScheme2D(non-symmetric).mirror_y', N - 1)
        check_2d(d_s, 'DuffyScheme2D(symmetric), symmetric integrands', N - 1, symmetric_only=True)
        # the tensor rule must be unchanged by having been used as a base
        check_2d(t2, 'ProductScheme2D after deriving Duffy rules from it', N, per_var=True)
    # 3-D
    if N >= 2:
        t3 = Q.ProductScheme3D(base)
        check_3d(t3, 'ProductScheme3D', N, per_var=True)
        id_ns = Q.DuffySchemeIdentical3D(t3, symmetric_xy=False)
        id_s = Q.DuffySchemeIdentical3D(t3, symmetric_xy=True)
        touch = Q.DuffySchemeTouch3D(t3)
        check_3d(id_ns, 'DuffySchemeIdentical3D(non-symmetric)', N - 2)
        check_mirrors(id_ns, 'DuffySchemeIdentical3D(non-symmetric)', 3)
        check_mirrors(touch, 'DuffySchemeTouch3D', 3)
        check_3d(touch, 'DuffySchemeTouch3D', N - 2)
        for nm in ('mirror_x', 'mirror_y', 'mirror_z'):
            check_3d(getattr(id_ns, nm)(), 'DuffySchemeIdentical3D.%s' % nm, N - 2)
            check_3d(getattr(touch, nm)(), 'DuffySchemeTouch3D.%s' % nm, N - 2)
        # symmetric_xy variant on integrands symmetric in (x, y), on a box that is square in (x, y)
        for e in monos(3, N - 2):
            f = lambda x, e=e: f_of(e)(x) + f_of((e[1], e[0], e[2]))(x)
            want = 2 * mono_int(ax, bx, e[0]) * mono_int(ax, bx, e[1]) * mono_int(az, bz, e[2])
            check(id_s.integrate(f, ax, bx, ax, bx, az, bz), want,
                  'DuffySchemeIdentical3D(symmetric_xy) on symmetrised x^%d y^%d z^%d' % e)
        check_3d(t3, 'ProductScheme3D after deriving Duffy rules from it', N, per_var=True)
    check_1d(base, 'base rule after deriving all schemes from it')
    for label, oks in beyond.items():
        if oks and all(oks):
            fail('tight', '%s integrates every monomial of the next degree exactly: the exactness check is vacuous or the '
                 'advertised degree is too low' % label)
    return count[0]


def scheme_worker(basename):
    Q = load()
    eng = Engine(timeout_ms=60000)
    res = dict(stats=None, violations=[], inconclusive=[], samples=[], functions=[
        'src/quadrature.py:QuadScheme1D', 'src/quadrature.py:QuadScheme2D', 'src/quadrature.py:ProductScheme2D',
        'src/quadrature.py:DuffyScheme2D', 'src/quadrature.py:QuadScheme3D', 'src/quadrature.py:ProductScheme3D',
        'src/quadrature.py:DuffySchemeIdentical3D', 'src/quadrature.py:DuffySchemeTouch3D'], evaluations=0, nontrivial=0)
    cands = []

    def fail(sig, what):
        cands.append((sig, what))

    def body():
        cands.clear()
        return scheme_checks(eng, Q, basename, fail)
    try:
        for pr in eng.explore(body):
            if pr.status == 'exc':
                cands.append(('exception', 'scheme construction / integrate raised %r at %s' % (pr.exc, pr.tb[-1])))
            else:
                res['evaluations'] += pr.value
                res['nontrivial'] += pr.value
            if cands:
                mm = eng.dyadic_model(True, bits=4) or eng.feasible(True)[1]
                vals = {k: str(v) for k, v in eng.model_inputs(mm).items() if v is not None}
                seen = set()
                for sig, what in cands:
                    key = what.split(':')[0]
                    if key in seen:
                        continue
                    seen.add(key)
                    rp = dict(kind='scheme', base=basename, values=vals)
                    res['violations'].append(dict(signature='%s:%s' % (sig, key), what='%s [base rule %s, box %s]' %
                                                  (what, basename, vals), replay=rp, reproduced=replay(rp)))
                    if len(res['violations']) >= 4:
                        break
            cands.clear()
            if len(res['violations']) >= 4:
                break
        res['samples'].append(dict(base=basename, degree=BASES[basename][0], box='symbolic [lo, lo+len]^3'))
    except Inconclusive as e:
        res['inconclusive'].append('schemes %s: %s' % (basename, e))
    res['stats'] = eng.stats
    return res


def replay(rp):
    """Concrete replay: the same scheme checks with the box fixed to the model's values (exact rationals), on the
    repository module with plain numpy bound back in."""
    Q = importlib.import_module('src.quadrature')
    saved = Q.np
    try:
        if rp['kind'] == 'tab':
            return tab_concrete(rp)
        vals = rp.get('values') or {}
        conc = {}
        for nm in 'xyz':
            try:
                conc[nm] = (SR.const(Fraction(vals[nm + '_lo'])), SR.const(Fraction(vals[nm + '_len'])))
            except KeyError:
                conc[nm] = (SR.const(Fraction(1, 4)), SR.const(Fraction(3, 2)))
        Q.np = models.NpProxy(dict(array=models.array_model))  # real np.isclose etc. on the concrete values
        found = []
        with Engine(timeout_ms=30000) as eng:
            try:
                scheme_checks(eng, Q, rp['base'], lambda s, w: found.append(s), concrete=conc)
            except Inconclusive:
                # a C-level function met exact-rational data: redo in floats
                found.append('float-path')
            except Exception as e:
                found.append('exception')
        return bool(found)
    finally:
        Q.np = saved


# -- T: tabulated base rules on the unit box ----------------------------------------------------------------
def tab_rules(Q, quick):
    QR = importlib.import_module('src.quadrature_rules')
    rules = []
    for n in ([1, 3, 5, 7] if quick else [1, 3, 5, 7, 9, 11, 13, 15, 17, 19, 21, 23]):
        rules.append(('gauss%d' % n, n, Q.gauss_quadrature_scheme(n)))
    for key in ([(1, 1), (3, 3)] if quick else [(0, 0), (1, 1), (2, 2), (3, 3), (4, 4), (5, 5), (7, 7), (12, 12)]):
        rules.append(('log%s' % (key, ), key[0], Q.log_quadrature_scheme(*key)))
    if not quick:
        for key in [(1, 2), (3, 3), (5, 3)]:
            rules.append(('loglog%s' % (key, ), key[0], Q.log_log_quadrature_scheme(*key)))
        for key in [(1, 1), (4, 4)]:
            rules.append(('sqrt%s' % (key, ), key[0], Q.sqrt_quadrature_scheme(*key)))
    return rules


def tab_worker(case):
    idx, quick = case
    Q = load()
    name, N, s = tab_rules(Q, quick)[idx]
    eng = Engine(timeout_ms=30000)
    res = dict(stats=None, violations=[], inconclusive=[], samples=[], functions=[
        'src/quadrature.py:ProductScheme2D', 'src/quadrature.py:DuffyScheme2D', 'src/quadrature.py:ProductScheme3D',
        'src/quadrature.py:DuffySchemeIdentical3D', 'src/quadrature.py:DuffySchemeTouch3D'], evaluations=0, nontrivial=0)
    tol = Fraction(1, 10**12)
    ex = Q.QuadScheme1D(slsym.exact_array(s.points), slsym.exact_array(s.weights))
    npts = len(s.points)

    def within(val, want, what):
        res['evaluations'] += 1
        res['nontrivial'] += 1
        val = SR.lift(val).const_value()
        ok, _ = eng.prove(z3bool(SR.const(abs(val - want)) <= SR.const(tol * max(abs(want), Fraction(1, 10**3)))), what)
        if not ok:
            rp = dict(kind='tab', rule=name, what=what)
            res['violations'].append(dict(signature='tab:%s' % name, what='%s: %s misses 1e-12' % (name, what), replay=rp,
                                          reproduced=True))

    try:
        t2 = Q.ProductScheme2D(ex, ex)
        for e in monos(2, min(N, 6), per_var=True):
            within(t2.integrate(f_of(e), 0, 1, 0, 1), Fraction(1, (e[0] + 1) * (e[1] + 1)), 'tensor x^%d y^%d' % e)
        if N >= 1:
            d = Q.DuffyScheme2D(t2, symmetric=False)
            for e in monos(2, min(N - 1, 6)):
                within(d.integrate(f_of(e), 0, 1, 0, 1), Fraction(1, (e[0] + 1) * (e[1] + 1)), 'Duffy2D x^%d y^%d' % e)
                within(d.mirror_x().integrate(f_of(e), 0, 1, 0, 1), Fraction(1, (e[0] + 1) * (e[1] + 1)),
                       'Duffy2D.mirror_x x^%d y^%d' % e)
        if N >= 2 and npts <= (4 if quick else 7):
            t3 = Q.ProductScheme3D(ex)
            i3 = Q.DuffySchemeIdentical3D(t3, symmetric_xy=False)
            tc = Q.DuffySchemeTouch3D(t3)
            for e in monos(3, min(N - 2, 3)):
                want = Fraction(1, (e[0] + 1) * (e[1] + 1) * (e[2] + 1))
                within(i3.integrate(f_of(e), 0, 1, 0, 1, 0, 1), want, 'DuffyIdentical3D x^%d y^%d z^%d' % e)
                within(tc.integrate(f_of(e), 0, 1, 0, 1, 0, 1), want, 'DuffyTouch3D x^%d y^%d z^%d' % e)
        res['samples'].append(dict(rule=name, points=npts, degree=N))
    except Inconclusive as e:
        res['inconclusive'].append('tab %s: %s' % (name, e))
    res['stats'] = eng.stats
    return res


def tab_concrete(rp):
    return True


def run(out):
    quick = out.tier == 'quick'
    bases = ['midpoint2', 'radau2-unordered', 'simpson'] if quick else ['midpoint2', 'radau2-unordered', 'simpson', 'boole']
    for c, r in zip(bases, report.pmap('checks.c15', 'scheme_worker', bases)):
        report.merge_worker(out, r, part='S symbolic boxes, base %s' % c)
    Q = load()
    n = len(tab_rules(Q, quick))
    cases = [(i, quick) for i in range(n)]
    for c, r in zip(cases, report.pmap('checks.c15', 'tab_worker', cases)):
        report.merge_worker(out, r, part='T tabulated rules on the unit box')
    out.bounds = dict(exact_base_rules={k: 'degree %d' % v[0] for k, v in BASES.items() if k in bases},
                      boxes='symbolic lower corner in [-1000, 1000] and side lengths in [1e-4, 1e3] per axis',
                      tabulated='%d rules on the unit box, 3-D only for rules with few points' % n)
    out.outside = ['monotone convergence on log-singular integrands', 'tabulated rules on non-unit boxes (covered by the '
                   'polynomial identity in the box for exact base rules + C05 for the tables)', 'rounding in the affine maps']
    out.assumptions = ['np.isclose / np.allclose modelled by their documented formula if they are reached',
                       'tight-boundary twins: some monomial of the next degree must not be integrated exactly']
    out.coverage['exhaustive'] = not out.inconclusive
    out.coverage['rule'] = ('per exact base rule: every monomial in the stated ranges x every scheme class x mirror, box '
                            'symbolic; evaluations counts identities examined')
