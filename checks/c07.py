"""C07 (structural part): pointwise evaluation of the single-layer operator on the boundary.

 E  evaluate(trial, t, x_hat, gamma(x_hat)) executed with symbolic x_hat in [0, L] and symbolic times on concrete trial
    cells of every curve; per path z3 decides that the value is the one the specification builds independently:
      - literal 0 iff t <= t_a;
      - in-element branch exactly on x_a(1+1e-10) <= x_hat <= x_b(1-1e-10): mirrored rule on [x_a, x_hat] + plain
        rule on [x_hat, x_b], both graded at x_hat, AssertionError exactly when a non-empty piece is <= 1e-5;
      - otherwise the log rule graded at the end point that is nearer along the curve (seam distance included on closed
        curves, tie -> x_a), applied to |gamma(x_hat) - gamma(y_k)|^2 with the nodes of *this* element;
      - time factor (1/4pi)[E1(r/4(t-t_a)) - [t > t_b] E1(r/4(t-t_b))] (written with Ei as the code does).
 X  evaluate_exact with symbolic x, x_a < x_b and times: equals sgn(x-x_a) W(|x-x_a|) + sgn(x_b-x) W(|x_b-x|) with
    W = spacetime_evaluated_1 (so outside / inside / end-point branches are mutually consistent and pass (near, far)).
The digit counts of the property (8 / 5e-4 / 2e-3) are not decided."""
import importlib
from fractions import Fraction

import numpy as np
import z3

from vf import models, report, slsym
from vf.sym import Engine, Inconclusive, SR, z3bool

LEVEL = 'other'
ONE_PLUS = SR.const(1 + 1e-10)   # the very doubles the code uses
ONE_MINUS = SR.const(1 - 1e-10)
MIN_LEN = SR.const(1e-5)


def load():
    SL, SLE, Q = slsym.load_sl()
    P = importlib.import_module('src.parametrization')
    P.np = models.NpProxy(dict(select=models.select_model, all=models.all_model))
    return SL, SLE, Q, P


def kernel_spec(eng, SL, r2, t, ta, tb):
    FPI = SR.const(SL.FPI_INV)
    v = -FPI * eng.apply('Ei', -r2 / (4 * (t - ta)))
    if t > tb:
        v = v + FPI * eng.apply('Ei', -r2 / (4 * (t - tb)))
    return v


def dist2(x, y):
    return (x[0] - y[0])**2 + (x[1] - y[1])**2


def evaluate_run(eng, SL, gamma, cell, qo, concrete=None, prepared=None):
    L = gamma.gamma_length
    if prepared is not None:
        # a real mesh element registered by the real constructor / _init_elems (history variant): concrete geometry
        op, trial = prepared
        xa, xb = trial.space_interval
        piece = trial.gamma_space
        ta, tb = trial.time_interval
        t, x_hat = eng.reals('t xh')
        eng.assume(x_hat >= 0)
        eng.assume(x_hat <= L)
    else:
        xa, xb, piece = cell
        if not concrete:
            xa, xb = slsym.exact(xa), slsym.exact(xb)   # exact-constant mode: the nodes stay symbolic constants
        if concrete:
            t, ta, tb, x_hat = concrete
        else:
            t, ta, tb, x_hat = eng.reals('t ta tb xh')
            eng.assume(ta < tb)
            eng.assume(x_hat >= 0)
            eng.assume(x_hat <= L)
        op = SL.SingleLayerOperator(slsym.FakeMesh(gamma), quad_order=qo)
        trial = slsym.Elem(ta, tb, xa, xb, piece)
        op._init_elems([trial])
    x = gamma.eval(x_hat)  # the point on the curve (forks over the pieces)
    if concrete:
        return op.evaluate(trial, t, x_hat, x)
    raised = None
    try:
        val = op.evaluate(trial, t, x_hat, x)
    except AssertionError as e:
        raised = e
        val = None
    # ---- specification, built independently ----
    pts, wts = op.log_scheme.points, op.log_scheme.weights
    mpts = 1 - pts
    xpt = (x[0, 0] if isinstance(x, np.ndarray) else x[0], x[1, 0] if isinstance(x, np.ndarray) else x[1])

    def quad(a, b, nodes01):
        tot = SR.const(0)
        for p, w in zip(nodes01, wts):
            if isinstance(a, SR) or isinstance(b, SR):
                y = SR.lift(a) + (SR.lift(b) - SR.lift(a)) * float(p)
                gy = piece(np.array([y], dtype=object))
            else:
                # plain doubles (real mesh element): the node is formed in double arithmetic, as the code does
                gy = piece(np.array([a + (b - a) * p]))
            r2 = dist2(xpt, (gy[0, 0], gy[1, 0]))
            tot = tot + SR.lift(float(w)) * kernel_spec(eng, SL, r2, t, ta, tb)
        return (b - a) * tot
    if t <= ta:
        spec, spec_raises = SR.const(0), False
    elif (x_hat >= (xa * ONE_PLUS if isinstance(xa, SR) else SR.lift(xa * (1 + 1e-10)))) and \
            (x_hat <= (xb * ONE_MINUS if isinstance(xb, SR) else SR.lift(xb * (1 - 1e-10)))):
        spec_raises = False
        spec = SR.const(0)
        for (a, b, nodes) in ((xa, x_hat, mpts), (x_hat, xb, pts)):
            if b == a:
                continue
            if not (b - a > MIN_LEN):
                spec_raises = True
                break
            spec = spec + quad(a, b, nodes)
    else:
        spec_raises = False

        def d(p, q):
            dd = abs(p - q)
            if gamma.closed and L - dd < dd:
                return L - dd
            return dd
        da, db = d(x_hat, xa), d(x_hat, xb)
        spec = quad(xa, xb, pts if da <= db else mpts)
    if spec_raises or raised is not None:
        return ('raise', spec_raises, raised is not None)
    if isinstance(val, np.ndarray):
        val = val.reshape(-1)[0]
    ok, m = eng.prove_identity(val, spec, 'evaluate=spec', rtol=1e-9 if prepared is not None else 1e-12)
    zero_ok = True
    if t <= ta:
        zero_ok = isinstance(val, (int, float)) and val == 0
    return ('value', ok and zero_ok, None)


def evaluate_worker(case):
    curve, icell, qo = case
    SL, SLE, Q, P = load()
    gamma = slsym.curve_pieces(curve)
    cells = slsym.space_leaves(gamma, 2)
    cell = cells[icell]
    eng = Engine(timeout_ms=60000)
    res = dict(stats=None, violations=[], inconclusive=[], samples=[], functions=[
        'src/single_layer.py:SingleLayerOperator.evaluate', 'src/single_layer.py:SingleLayerOperator._init_elems',
        'src/parametrization.py:PiecewiseParametrization.eval', 'src/quadrature.py:QuadScheme1D.integrate'],
        evaluations=0, nontrivial=0)

    def body():
        return evaluate_run(eng, SL, gamma, cell, qo)
    try:
        for pr in eng.explore(body):
            res['evaluations'] += 1
            bad = None
            if pr.status == 'exc':
                bad = 'evaluate raised %r at %s' % (pr.exc, pr.tb[-1])
            else:
                res['nontrivial'] += 1
                kind, p, q = pr.value
                if kind == 'raise' and p != q:
                    bad = ('AssertionError although both pieces are longer than 1e-5' if q else
                           'no error although a piece of the in-element split is shorter than 1e-5')
                elif kind == 'value' and not p:
                    bad = 'value differs from the specification (branch / rule / nodes / time factor)'
            if bad:
                # prefer a witness inside the property's regime: smooth kernel (t - t_a >= 1/2), point well inside
                # the element when the path allows it
                t_, ta_, xh_ = eng.real('t'), eng.real('ta'), eng.real('xh')
                hq = (cell[1] - cell[0]) / 8
                conds = [z3.And(z3bool(t_ - ta_ >= Fraction(1, 2)), z3bool(xh_ >= cell[0] + hq), z3bool(xh_ <= cell[1] - hq)),
                         z3bool(t_ - ta_ >= Fraction(1, 2)), z3.BoolVal(True)]
                mm = None
                for cond in conds:
                    mm = eng.dyadic_model(cond, bits=6) or eng.feasible(cond)[1]
                    if mm is not None:
                        break
                vals = {k: str(v) for k, v in eng.model_inputs(mm).items() if v is not None}
                rp = dict(kind='evaluate', curve=curve, icell=icell, qo=qo, values=vals)
                res['violations'].append(dict(signature='evaluate:%s' % curve, what='%s [%s, trial cell [%s, %s], %s]' %
                                              (bad, curve, cell[0], cell[1], vals), replay=rp, reproduced=replay(rp)))
            elif len(res['samples']) < 1:
                mm = eng.feasible(True)[1]
                res['samples'].append(dict(curve=curve, cell=[float(cell[0]), float(cell[1])],
                                           point={k: str(v) for k, v in eng.model_inputs(mm).items()}))
            if len(res['violations']) >= 3:
                break
    except Inconclusive as e:
        res['inconclusive'].append('evaluate %r: %s' % (case, e))
    res['stats'] = eng.stats
    return res


def replay(rp):
    """Floats on the unmodified module against an independent evaluation: graded composite Gauss of the exact
    time-integrated kernel (scipy exp1) on the element, tolerance 1e-2 relative / the property's classes."""
    import scipy.special as sp
    SL = importlib.import_module('src.single_layer')
    if rp['kind'] == 'exact':
        return exact_concrete(rp)
    if rp['kind'] == 'history':
        return history_concrete(rp)
    curve = rp['curve']
    gamma = slsym.curve_pieces(curve)
    cells = slsym.space_leaves(gamma, 2)
    cell = cells[rp['icell']]
    vals = {k: float(Fraction(v)) for k, v in rp['values'].items()}
    try:
        t, ta, tb, xh = vals['t'], vals['ta'], vals['tb'], vals['xh']
    except KeyError:
        return False
    if not (ta < tb) or not (0 <= xh <= gamma.gamma_length):
        return False
    with slsym.unpatched():
        try:
            op = SL.SingleLayerOperator(slsym.FakeMesh(gamma), quad_order=12)
            trial = slsym.Elem(ta, tb, cell[0], cell[1], cell[2])
            op._init_elems([trial])
            x = gamma.eval(xh)
            try:
                got = op.evaluate(trial, t, xh, x)
            except AssertionError:
                inside = cell[0] * (1 + 1e-10) <= xh <= cell[1] * (1 - 1e-10)
                short = inside and (0 < xh - cell[0] <= 1e-5 or 0 < cell[1] - xh <= 1e-5)
                return not short
            got = float(np.asarray(got).reshape(-1)[0]) if not isinstance(got, (int, float)) else float(got)
            if t <= ta:
                return not (got == 0)
            # reference: composite Gauss graded geometrically towards the point of nearest approach

            def K(y):
                r2 = np.sum((x - cell[2](y))**2, axis=0)
                r2 = np.maximum(r2, 1e-300)
                v = sp.exp1(r2 / (4 * (t - ta)))
                if t > tb:
                    v = v - sp.exp1(r2 / (4 * (t - tb)))
                return v / (4 * np.pi)
            ys = np.linspace(cell[0], cell[1], 2001)
            k = int(np.argmin(np.sum((x - cell[2](ys))**2, axis=0)))
            inside = cell[0] <= xh <= cell[1]
            sing = xh if inside else ys[k]
            gx, gw = np.polynomial.legendre.leggauss(20)
            ref = 0.0
            for (lo, hi) in ((cell[0], sing), (sing, cell[1])):
                if hi - lo <= 0:
                    continue
                # geometric grading towards `sing`
                edges = [0.0] + [0.5**k for k in range(40, -1, -1)]
                for e0, e1 in zip(edges, edges[1:]):
                    if lo == cell[0] and sing != cell[0]:
                        a_, b_ = hi - e1 * (hi - lo), hi - e0 * (hi - lo)
                    else:
                        a_, b_ = lo + e0 * (hi - lo), lo + e1 * (hi - lo)
                    yy = 0.5 * (a_ + b_) + 0.5 * (b_ - a_) * gx
                    ref += 0.5 * (b_ - a_) * np.dot(gw, K(yy))
            h2 = (cell[1] - cell[0])**2
            tau = min(v for v in (t - ta, t - tb) if v > 0)
            if inside:
                tol = 1e-6 if h2 / tau <= 16 else 1e-3
            else:
                tol = 2e-3 if h2 / tau <= 16 else 0.2
            return abs(got - ref) > tol * max(abs(ref), 1e-9)
        except Exception:
            return True


def history_worker(case):
    """Pre-evaluated curve points must be those of *this* element also after a history: an operator registers the
    leaves, a leaf is bisected (space or time), the elements are registered again (second operator on the same mesh,
    as the adaptive loop does), and the children are evaluated against the specification."""
    curve, ileaf, ax, qo = case
    SL, SLE, Q, P = load()
    M = importlib.import_module('src.mesh')
    M.print = models.noprint
    gamma = slsym.curve_pieces(curve)
    eng = Engine(timeout_ms=60000)
    res = dict(stats=None, violations=[], inconclusive=[], samples=[], functions=[
        'src/single_layer.py:SingleLayerOperator.__init__', 'src/single_layer.py:SingleLayerOperator._init_elems',
        'src/single_layer.py:SingleLayerOperator.evaluate', 'src/mesh.py:Mesh.refine_axis'], evaluations=0, nontrivial=0)
    saved_np = P.np
    P.np = np
    try:
        mesh = M.MeshParametrized(gamma)
    finally:
        P.np = saved_np
    leaves = list(mesh.leaf_elements)
    SL.SingleLayerOperator(mesh, quad_order=qo)           # first registration
    children = mesh.refine_axis(leaves[ileaf % len(leaves)], ax)
    op2 = SL.SingleLayerOperator(mesh, quad_order=qo)     # registered again after the refinement
    for child in children:
        try:
            for pr in eng.explore(lambda: evaluate_run(eng, SL, gamma, None, qo, prepared=(op2, child))):
                res['evaluations'] += 1
                bad = None
                if pr.status == 'exc':
                    bad = 'evaluate raised %r at %s' % (pr.exc, pr.tb[-1])
                else:
                    res['nontrivial'] += 1
                    kind, p_, q_ = pr.value
                    if kind == 'value' and not p_:
                        bad = 'value differs from the specification after the history'
                    elif kind == 'raise' and p_ != q_:
                        bad = 'assertion behaviour differs from the specification'
                if bad:
                    mm = eng.feasible(True)[1]
                    vals = {k: str(v) for k, v in eng.model_inputs(mm).items() if v is not None}
                    rp = dict(kind='history', curve=curve, ileaf=ileaf, ax=ax, qo=qo, values=vals,
                              child=[float(child.space_interval[0]), float(child.space_interval[1])])
                    res['violations'].append(dict(signature='evaluate-history:%s' % curve, what='%s [%s: leaf %d registered, '
                                                  'bisected in %s, registered again; child %r; %s]' %
                                                  (bad, curve, ileaf, 'space' if ax else 'time', child, vals), replay=rp,
                                                  reproduced=replay(rp)))
                    break
        except Inconclusive as e:
            res['inconclusive'].append('history %r: %s' % (case, e))
        if res['violations']:
            break
    res['samples'].append(dict(history=[curve, ileaf, 'space' if ax else 'time']))
    res['stats'] = eng.stats
    return res


# -- X: evaluate_exact ------------------------------------------------------------------------------------
def exact_worker(mode):
    SL, SLE, Q, P = load()
    eng = Engine(timeout_ms=60000)
    res = dict(stats=None, violations=[], inconclusive=[], samples=[], functions=[
        'src/single_layer.py:SingleLayerOperator.evaluate_exact', 'src/single_layer_exact.py:spacetime_evaluated_1'],
        evaluations=0, nontrivial=0)
    gamma = slsym.curve_pieces('UnitSquare')

    def body():
        t, ta, tb, x, xa, xb = eng.reals('t ta tb x xa xb')
        eng.assume(ta < tb)
        eng.assume(xa < xb)
        eng.assume(xa >= 0)
        eng.assume(x >= 0)
        # the two end points are explored as the very same symbolic value (no tie to resolve by substitution)
        if mode == 'at_a':
            x = xa
        elif mode == 'at_b':
            x = xb
        else:
            eng.assume(x != xa)
            eng.assume(x != xb)
        # z = t - ta = s1^2 and t - tb = s2^2 make the square roots algebraic
        op = SL.SingleLayerOperator(slsym.FakeMesh(gamma), quad_order=1)
        trial = slsym.Elem(ta, tb, xa, xb, gamma.pw_gamma[0])
        val = op.evaluate_exact(trial, t, x)
        W = SLE.spacetime_evaluated_1
        if t <= ta:
            return isinstance(val, (int, float)) and val == 0, None
        spec = SR.const(0)
        for sgn_pos, dist in (((x - xa) >= 0, abs(x - xa)), ((xb - x) >= 0, abs(xb - x))):
            if dist == 0:
                continue
            w = SR.lift(W(t, ta, tb, dist))
            spec = spec + (w if sgn_pos else -w)
        if val is None:
            return False, None
        return eng.prove_identity(val, spec, 'evaluate_exact=spec', rtol=1e-12)
    try:
        for pr in eng.explore(body):
            res['evaluations'] += 1
            bad = None
            if pr.status == 'exc':
                bad = 'evaluate_exact raised %r at %s' % (pr.exc, pr.tb[-1])
            else:
                res['nontrivial'] += 1
                if not pr.value[0]:
                    bad = 'evaluate_exact differs from sgn(x-x_a) W(|x-x_a|) + sgn(x_b-x) W(|x_b-x|)'
            if bad:
                # several different witnesses of the path: a wrong formula may coincide with the right one on a
                # symmetric model (e.g. h_t = h_x)
                rp, ok = None, False
                for mm in eng.diverse_models(True, n=6, bits=4):
                    vals = {k: str(v) for k, v in eng.model_inputs(mm).items() if v is not None}
                    if mode == 'at_a':
                        vals['x'] = vals.get('xa')
                    elif mode == 'at_b':
                        vals['x'] = vals.get('xb')
                    rp = dict(kind='exact', values=vals)
                    if replay(rp):
                        ok = True
                        break
                res['violations'].append(dict(signature='evaluate_exact', what='%s [%s]' % (bad, rp and rp['values']),
                                              replay=rp, reproduced=ok))
            elif len(res['samples']) < 2:
                mm = eng.feasible(True)[1]
                res['samples'].append(dict(evaluate_exact={k: str(v) for k, v in eng.model_inputs(mm).items()}))
    except Inconclusive as e:
        res['inconclusive'].append('evaluate_exact: %s' % e)
    res['stats'] = eng.stats
    return res


def history_concrete(rp):
    """Plain floats: same history on the unmodified modules; the child's value at a point outside it is compared with
    the value a FRESH operator (no history) gives for an identical element."""
    SL = importlib.import_module('src.single_layer')
    M = importlib.import_module('src.mesh')
    gamma = slsym.curve_pieces(rp['curve'])
    with slsym.unpatched():
        try:
            mesh = M.MeshParametrized(gamma)
            leaves = list(mesh.leaf_elements)
            SL.SingleLayerOperator(mesh, quad_order=4)
            children = mesh.refine_axis(leaves[rp['ileaf'] % len(leaves)], rp['ax'])
            op2 = SL.SingleLayerOperator(mesh, quad_order=4)
            for child in children:
                fresh_elem = slsym.Elem(child.time_interval[0], child.time_interval[1], child.space_interval[0],
                                        child.space_interval[1], child.gamma_space)
                fresh = SL.SingleLayerOperator(slsym.FakeMesh(gamma), quad_order=4)
                fresh._init_elems([fresh_elem])
                L = gamma.gamma_length
                for xh in np.linspace(0, L, 41):
                    x = gamma.eval(xh)
                    for t in (child.time_interval[1] + 0.5, child.time_interval[1]):
                        try:
                            a_ = op2.evaluate(child, t, xh, x)
                            b_ = fresh.evaluate(fresh_elem, t, xh, x)
                        except AssertionError:
                            continue
                        if abs(float(np.asarray(a_).reshape(-1)[0]) - float(np.asarray(b_).reshape(-1)[0])) > 1e-10 * (
                                1e-12 + abs(float(np.asarray(b_).reshape(-1)[0]))):
                            return True
            return False
        except Exception:
            return True


def exact_concrete(rp):
    import warnings
    SL = importlib.import_module('src.single_layer')
    SLE = importlib.import_module('src.single_layer_exact')
    vals = {k: float(Fraction(v)) for k, v in rp['values'].items()}
    try:
        t, ta, tb, x, xa, xb = (vals[k] for k in ('t', 'ta', 'tb', 'x', 'xa', 'xb'))
    except KeyError:
        return False
    if not (ta < tb and xa < xb):
        return False
    gamma = slsym.curve_pieces('UnitSquare')
    with slsym.unpatched(), warnings.catch_warnings():
        warnings.simplefilter('ignore')
        try:
            op = SL.SingleLayerOperator(slsym.FakeMesh(gamma), quad_order=1)
            got = op.evaluate_exact(slsym.Elem(ta, tb, xa, xb, gamma.pw_gamma[0]), t, x)
            if t <= ta:
                return not (got == 0)
            if got is None:
                return True
            W = SLE.spacetime_evaluated_1
            want = 0.0
            for sgn_pos, dist in (((x - xa) >= 0, abs(x - xa)), ((xb - x) >= 0, abs(xb - x))):
                if dist == 0:
                    continue
                w = W(t, ta, tb, dist)
                want += w if sgn_pos else -w
            return abs(got - want) > 1e-9 * (abs(want) + 1e-12)
        except Exception:
            return True


def run(out):
    quick = out.tier == 'quick'
    qo = 2 if quick else 4
    cases = []
    for curve, n in (('UnitSquare', 8), ('Circle', 8), ('LShape', 12), ('UnitInterval', 2)):
        idx = [0, n - 1] if quick else list(range(n))
        if quick and n > 2:
            idx.append(n // 2)
        for i in idx:
            cases.append((curve, i, qo))
    for c, r in zip(cases, report.pmap('checks.c07', 'evaluate_worker', cases)):
        report.merge_worker(out, r, part='E evaluate ' + c[0])
    hc = [(c, i, ax, qo) for c in (['UnitSquare', 'Circle'] if quick else ['UnitSquare', 'Circle', 'LShape'])
          for i in ((0, 3) if quick else (0, 1, 2, 3)) for ax in (0, 1)]
    for c, r in zip(hc, report.pmap('checks.c07', 'history_worker', hc)):
        report.merge_worker(out, r, part='H evaluate after a register / bisect / register history')
    for r in report.pmap('checks.c07', 'exact_worker', ['generic', 'at_a', 'at_b']):
        report.merge_worker(out, r, part='X evaluate_exact')
    out.bounds = dict(x_hat='symbolic real in [0, L]', times='symbolic reals t, t_a < t_b', quad_order=qo,
                      trial_cells='two per side (eight on the circle): %s' % sorted(set((c[0], c[1]) for c in cases)))
    out.outside = ['the 8-digit / 5e-4 / 2e-3 accuracy classes', 'agreement of the integral of evaluate with the Galerkin '
                   'entry', 'quad_order other than %d' % qo, 'rounding in x_a*(1+1e-10) (reals)']
    out.assumptions = ['Ei uninterpreted (E1(x) = -Ei(-x)); cos/sin uninterpreted on the circle', 'np.select/np.all modelled',
                       'specification written in the harness (checks/c07.py: evaluate_run) from the property text']
    out.coverage['exhaustive'] = not out.inconclusive
    out.coverage['rule'] = ('per trial cell: paths = pieces of the curve containing x_hat x position classes relative to '
                            'the element x time classes; identity of canonical linear forms per path')
