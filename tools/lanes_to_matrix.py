#!/usr/bin/env python3
"""tools/lanes_to_matrix.py <try-output directory>: folds single tries (TRY_OUT files named try_<check>_<change>.out,
written by tools/try_mutant.sh in scratch worktrees) into seeded/MATRIX.txt, replacing the line of the same
(seeded change, check) pair.  Used when only part of the matrix is re-run."""
import glob, os, re, sys
HERE = os.path.dirname(os.path.dirname(os.path.abspath(__file__)))
d = sys.argv[1]
path = os.path.join(HERE, 'seeded', 'MATRIX.txt')
lines = {}
for ln in open(path):
    p = ln.split()
    if len(p) >= 2:
        lines[(p[0], p[1])] = ln.rstrip('\n')
for f in sorted(glob.glob(os.path.join(d, 'try_C??_C*.out'))):
    m = re.match(r'try_(C\d\d)_(C\d\d-\w+)\.out', os.path.basename(f))
    chk, mut = m.groups()
    txt = open(f).read().splitlines()
    if not any(re.match(r'^(OK|VIOLATION|INCONCLUSIVE|KNOWN-FINDING)', t) for t in txt):
        continue   # still running
    v = sum(1 for t in txt if t.startswith('VIOLATION'))
    i = sum(1 for t in txt if t.startswith('INCONCLUSIVE'))
    rc = 1 if v else (3 if i else 0)
    sig = next((t[2:92] for t in txt if re.match(r'^  [a-zA-Z]', t)), '')
    wall = next((re.search(r'wall=([\d.]+)s', t).group(1) for t in txt if t.startswith('OK') and 'wall=' in t), '?')
    wall = str(int(float(wall))) if wall != '?' else '0'
    lines[(mut, chk)] = '%s %s violations=%d inconclusive=%d exit=%d wall=%ss | %s' % (mut, chk, v, i, rc, wall, sig)
with open(path, 'w') as f:
    for k in sorted(lines):
        f.write(lines[k] + '\n')
print('%d lines' % len(lines))
