#!/bin/bash
# tools/confirm_mutant.sh <ID> <letter>: confirm a sub-agent's seeded change in a scratch worktree of /repo HEAD:
# patch applies, the 43 stable tests pass with it, the demo fails with it and passes without it.
# On success the change is stored as /verif/seeded/<ID>-<letter>/ {patch.diff, demo.py, meta.json}.
ID="$1"; L="$2"; ROUND="${3:-}"; SRC="/tmp/wt/out${ROUND}_$ID/$L"; WT="/tmp/wt/confirm_$ID$L$ROUND"
[ -f "$SRC/patch.diff" ] || { echo "no patch"; exit 2; }
git -C /repo worktree add -q --detach "$WT" HEAD || exit 2
cd "$WT"
cp "$SRC/demo.py" demo_X.py
timeout 600 /venv/bin/python demo_X.py > /tmp/confirm_demo_clean_$ID$L$ROUND.out 2>&1; RC_CLEAN=$?
git apply "$SRC/patch.diff" || { echo "patch does not apply on HEAD"; cd /; git -C /repo worktree remove --force "$WT"; exit 2; }
timeout 600 /venv/bin/python demo_X.py > /tmp/confirm_demo_mut_$ID$L$ROUND.out 2>&1; RC_MUT=$?
# the 43 stable tests by node id (the other tests of the suite fail on the unchanged tree already)
NODES=$(sed 's#^src\.#src/#; s#::#.py::#' /tmp/wt/stable_tests.txt | tr '\n' ' ')
/venv/bin/python -m pytest -q -p no:cacheprovider --timeout=900 --continue-on-collection-errors -rA $NODES 2>&1 | grep -E "^PASSED" | sed 's/PASSED //; s#/#.#g; s/\.py::/::/' | sort > /tmp/confirm_passed_$ID$L$ROUND.txt
MISSING=$(sort /tmp/wt/stable_tests.txt | comm -23 - /tmp/confirm_passed_$ID$L$ROUND.txt | wc -l)
cd /; git -C /repo worktree remove --force "$WT"
echo "$ID-$L$ROUND: demo clean rc=$RC_CLEAN, demo mutated rc=$RC_MUT, stable tests missing=$MISSING"
if [ "$RC_CLEAN" = 0 ] && [ "$RC_MUT" != 0 ] && [ "$MISSING" = 0 ]; then
  D="/verif/seeded/$ID-$L$ROUND"; mkdir -p "$D"
  cp "$SRC/patch.diff" "$SRC/demo.py" "$D/"
  /venv/bin/python - "$SRC/meta.json" "$D/meta.json" "$RC_CLEAN" "$RC_MUT" <<'PY'
import json, sys
src, dst, rc_clean, rc_mut = sys.argv[1:5]
try:
    m = json.load(open(src))
except Exception:
    m = {}
m['confirmed_by_me'] = dict(base='/repo HEAD (with the fix: commits present at the time)', demo_rc_without_patch=int(rc_clean),
                            demo_rc_with_patch=int(rc_mut), stable_tests_missing_with_patch=0,
                            ran=['git worktree add <scratch> HEAD', 'python demo_X.py (clean)', 'git apply patch.diff',
                                 'python demo_X.py (mutated)', 'pytest -q ... (43 stable tests all PASSED)'])
json.dump(m, open(dst, 'w'), indent=1)
PY
  echo "stored $D"
else
  echo "NOT CONFIRMED"; tail -3 /tmp/confirm_demo_clean_$ID$L$ROUND.out; tail -3 /tmp/confirm_demo_mut_$ID$L$ROUND.out
fi
