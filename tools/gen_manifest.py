#!/usr/bin/env python3
"""Writes MANIFEST.json from the table below (kept in one place so that it stays valid)."""
import json, os
HERE = os.path.dirname(os.path.dirname(os.path.abspath(__file__)))
CHECKS = {}
NA = {}
exec(open(os.path.join(HERE, 'tools', 'manifest_table.py')).read())
import sys
sys.path.insert(0, HERE)
import ast
# the table of supporting deciders is read from vf/support.py without importing it (no z3 needed here)
_src = open(os.path.join(HERE, 'vf', 'support.py')).read()
_node = [n for n in ast.parse(_src).body if isinstance(n, ast.Assign) and n.targets[0].id == 'SUPPORT'][0]
SUPPORT = eval(compile(ast.Expression(_node.value), 'support', 'eval'))
checks = []
for pid in sorted(CHECKS):
    c = dict(CHECKS[pid])
    if pid in SUPPORT:
        c['text'] += ' Hypotheses of the statement decided inside this check by the (quick-tier) deciders of other properties (vf/support.py, DESIGN 2.8): ' + \
            '; '.join('%s%s - %s' % (r, (' parts %s' % '/'.join(k['only'])) if k.get('only') else '', w) for r, k, w in SUPPORT[pid]) + '.'
    checks.append(dict(property_id=pid, quick_cmd='./check %s --tier quick' % pid,
                       thorough_cmd='./check %s --tier thorough' % pid,
                       evidence_file='evidence/%s.json' % pid,
                       replay_cmd_template='./check %s --replay {path}' % pid,
                       engine=c.get('engine', 'S'),
                       level_claimed=dict(category=c['category'], text=c['text'], design_ref=c['design_ref']),
                       level_note=c['note'], technique=c['technique']))
man = dict(version=1, setup_cmd='./setup.sh',
           hooks=dict(guard='STBEM_VERIF', enable='none needed: no hook was added to /repo; the checks interpose by rebinding module globals in their own process (STBEM_VERIF=1 is exported by ./check but read by nothing in /repo)',
                      baseline_off_cmd='cd /repo && /venv/bin/python -m pytest -ra -q -p no:cacheprovider --timeout=900 --continue-on-collection-errors',
                      source_commits=[], add_only=True),
           engines=[dict(name='S', path='vf/sym.py', serves_properties=sorted(CHECKS),
                         kind_free_text='symbolic execution of the repository\'s own Python modules by operator overloading; z3 decides branch feasibility and postconditions per path'),
                    dict(name='T', path='vf/tables.py', serves_properties=['C05', 'C14', 'C15'],
                         kind_free_text='literal tables parsed from the source text (ast) into exact rationals; moment claims as ground / interval SMT queries'),
                    dict(name='Ref', path='vf/meshref.py', serves_properties=['C02', 'C10', 'C06', 'C19'],
                         kind_free_text='independent reference model of the mesh (dyadic rectangles, geometric adjacency, least closure)')],
           checks=checks,
           notes='Solver-based checking only (z3 via engine S / T; CrossHair for int-keyed lookups). Bounds and what lies outside them are in DESIGN.md and repeated in every evidence file. Exit 3 = inconclusive (never a verdict).',
           not_applicable=[dict(property_id=k, reason=v) for k, v in sorted(NA.items())])
json.dump(man, open(os.path.join(HERE, 'MANIFEST.json'), 'w'), indent=1)
print('MANIFEST.json: %d checks, %d not applicable' % (len(checks), len(NA)))
