#!/bin/bash
# tools/run_all.sh <tier>: every registered check once, with wall times (for sizing the tiers)
TIER="${1:-quick}"
cd "$(dirname "$0")/.."
for id in $(python3 -c "import json; print(' '.join(c['property_id'] for c in json.load(open('MANIFEST.json'))['checks']))"); do
  S=$(date +%s)
  STBEM_REPO="${VP_RUN_REPO:-/repo}" ./check "$id" --tier "$TIER" > /tmp/run_all_$id.out 2>&1
  RC=$?
  E=$(date +%s)
  echo "$id tier=$TIER rc=$RC wall=$((E-S))s $(grep -E '^(OK|VIOLATION|INCONCLUSIVE)' /tmp/run_all_$id.out | head -2 | cut -c1-160 | tr '\n' ' ')"
done
