#!/bin/bash
# round-2 seeded changes against their own and related checks (appends to seeded/MATRIX.txt)
cd /verif
OUT=/verif/seeded/MATRIX.txt
grep -v -E "^C[0-9]+-[A-Z]2 " $OUT > /tmp/matrix_keep.txt; cp /tmp/matrix_keep.txt $OUT
declare -A EXTRA
EXTRA[C01]="C12 C15 C11"; EXTRA[C11]="C01 C12 C15"; EXTRA[C12]="C01 C15"; EXTRA[C04]="C17 C11"; EXTRA[C02]="C06 C10"
for d in seeded/C*-*2; do
  m=$(basename $d); prop=${m%%-*}
  for chk in $prop ${EXTRA[$prop]}; do
    r=$(timeout 1500 tools/try_mutant.sh $d/patch.diff $chk 2>&1 | tail -1)
    git -C /repo checkout -- . 2>/dev/null
    v=$(grep -cE "^VIOLATION" /tmp/try_mutant.out)
    i=$(grep -cE "^INCONCLUSIVE" /tmp/try_mutant.out)
    sig=$(grep -E "^  [a-zA-Z]" /tmp/try_mutant.out | head -1 | cut -c3-90)
    echo "$m $chk violations=$v inconclusive=$i $r | $sig" | tee -a $OUT
  done
done
sort -o $OUT $OUT
