#!/bin/bash
# tools/try_mutant.sh <patch.diff> <ID> [tier]   -- apply a seeded change to the repository copy ($STBEM_REPO, default
# /repo), run the check from this /verif copy, undo.  TRY_OUT names the file that keeps the check's output.
P="$(realpath "$1")"; ID="$2"; TIER="${3:-quick}"
REPO="${STBEM_REPO:-/repo}"; export STBEM_REPO="$REPO"
VERIF="$(cd "$(dirname "$0")/.." && pwd)"
TRY_OUT="${TRY_OUT:-/tmp/try_mutant.out}"
cd "$REPO" || exit 9
git diff --quiet || { echo "$REPO not clean"; exit 9; }
git apply "$P" || { echo "patch does not apply"; exit 9; }
cd "$VERIF"
# evidence files under git must come from the unchanged tree: keep the current one aside
KEEP="$(mktemp)"; cp -f "evidence/$ID.json" "$KEEP" 2>/dev/null
START=$(date +%s)
./check "$ID" --tier "$TIER" > "$TRY_OUT" 2>&1
RC=$?
END=$(date +%s)
git -C "$REPO" checkout -- .
[ -s "$KEEP" ] && cp -f "$KEEP" "evidence/$ID.json"; rm -f "$KEEP"
rm -f replays/${ID}_*.json
grep -E "^(VIOLATION|KNOWN-FINDING|INCONCLUSIVE|OK)" "$TRY_OUT" | cut -c1-400 | head -8
grep -E "^  " "$TRY_OUT" | cut -c1-300 | head -4
echo "exit=$RC wall=$((END-START))s"
