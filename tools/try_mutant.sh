#!/bin/bash
# tools/try_mutant.sh <patch.diff> <ID> [tier]   -- apply a seeded change to /repo, run the check, undo.
P="$(realpath "$1")"; ID="$2"; TIER="${3:-quick}"
cd /repo || exit 9
git diff --quiet || { echo "/repo not clean"; exit 9; }
git apply "$P" || { echo "patch does not apply"; exit 9; }
cd /verif
# evidence files under git must come from the unchanged tree: keep the current one aside
cp -f "evidence/$ID.json" "/tmp/evidence_keep_$ID.json" 2>/dev/null
START=$(date +%s)
./check "$ID" --tier "$TIER" > /tmp/try_mutant.out 2>&1
RC=$?
END=$(date +%s)
git -C /repo checkout -- .
cp -f "/tmp/evidence_keep_$ID.json" "evidence/$ID.json" 2>/dev/null
rm -f replays/${ID}_*.json
grep -E "^(VIOLATION|KNOWN-FINDING|INCONCLUSIVE|OK)" /tmp/try_mutant.out | cut -c1-400 | head -8
grep -E "^  " /tmp/try_mutant.out | cut -c1-300 | head -4
echo "exit=$RC wall=$((END-START))s"
