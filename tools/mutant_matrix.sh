#!/bin/bash
# tools/mutant_matrix.sh [pattern]: every seeded change (optionally only those matching the glob pattern) against the
# check of its own property and related ones; quick tier; writes seeded/MATRIX.txt.  Patches /repo in place: run
# nothing else against /repo meanwhile.
cd /verif
PAT="${1:-C*-*}"
OUT=/verif/seeded/MATRIX.txt
touch $OUT
declare -A EXTRA
EXTRA[C01]="C12 C11 C15"; EXTRA[C03]="C01 C11 C17"; EXTRA[C11]="C01 C12 C15"; EXTRA[C12]="C01 C15"; EXTRA[C17]="C04"
EXTRA[C04]="C17 C11"; EXTRA[C14]="C05"; EXTRA[C02]="C06 C10"; EXTRA[C08]="C16"
for d in seeded/$PAT; do
  [ -f "$d/patch.diff" ] || continue
  m=$(basename $d); prop=${m%%-*}
  grep -v "^$m " $OUT > /tmp/matrix_keep.txt; cp /tmp/matrix_keep.txt $OUT
  for chk in $prop ${EXTRA[$prop]}; do
    grep -q "\"property_id\": \"$chk\"" MANIFEST.json || continue
    r=$(timeout 1800 tools/try_mutant.sh $d/patch.diff $chk 2>&1 | tail -1)
    git -C /repo checkout -- . 2>/dev/null
    v=$(grep -cE "^VIOLATION" /tmp/try_mutant.out)
    i=$(grep -cE "^INCONCLUSIVE" /tmp/try_mutant.out)
    sig=$(grep -E "^  [a-zA-Z]" /tmp/try_mutant.out | head -1 | cut -c3-90)
    echo "$m $chk violations=$v inconclusive=$i $r | $sig" | tee -a $OUT
  done
done
sort -o $OUT $OUT
