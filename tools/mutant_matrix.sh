#!/bin/bash
# tools/mutant_matrix.sh [pattern] [shards]: every seeded change (optionally only those matching the glob pattern)
# against the check of its own property and related ones; quick tier; writes seeded/MATRIX.txt.
# Works on scratch worktrees of /repo HEAD and of this /verif's HEAD (one pair per shard, under /tmp/mx, removed at
# the end), so /repo itself is never patched and evidence/ here is not touched.  COMMIT /verif FIRST: the shards run
# the committed checks.
VERIF="$(cd "$(dirname "$0")/.." && pwd)"
cd "$VERIF"
PAT="${1:-C*-*}"; SHARDS="${2:-3}"
OUT="$VERIF/seeded/MATRIX.txt"
touch "$OUT"
MX=/tmp/mx; rm -rf $MX; mkdir -p $MX
git -C /repo worktree prune; git -C "$VERIF" worktree prune
ls -d seeded/$PAT 2>/dev/null | while read d; do [ -f "$d/patch.diff" ] && basename "$d"; done > $MX/all.txt
shard() {
  k="$1"
  git -C /repo worktree add -q --detach $MX/repo_$k HEAD || exit 2
  git -C "$VERIF" worktree add -q --detach $MX/verif_$k HEAD || exit 2
  ln -s "$VERIF/.venv" $MX/verif_$k/.venv
  declare -A EXTRA
  EXTRA[C01]="C12 C11 C15 C04 C18"; EXTRA[C03]="C01 C11 C17"; EXTRA[C11]="C01 C12 C15"; EXTRA[C12]="C01 C15"; EXTRA[C17]="C04"
  EXTRA[C04]="C17 C11 C01"; EXTRA[C14]="C05"; EXTRA[C02]="C06 C10"; EXTRA[C08]="C16 C17"; EXTRA[C09]="C14"; EXTRA[C10]="C18 C02"
  export STBEM_REPO=$MX/repo_$k TRY_OUT=$MX/try_$k.out
  awk -v k="$k" -v n="$SHARDS" 'NR % n == k' $MX/all.txt | while read m; do
    prop=${m%%-*}
    for chk in $prop ${EXTRA[$prop]}; do
      grep -q "\"property_id\": \"$chk\"" "$VERIF/MANIFEST.json" || continue
      r=$(timeout 2400 $MX/verif_$k/tools/try_mutant.sh "$VERIF/seeded/$m/patch.diff" $chk 2>&1 | tail -1)
      git -C $MX/repo_$k checkout -- . 2>/dev/null
      v=$(grep -cE "^VIOLATION" $TRY_OUT)
      i=$(grep -cE "^INCONCLUSIVE" $TRY_OUT)
      sig=$(grep -E "^  [a-zA-Z]" $TRY_OUT | head -1 | cut -c3-90)
      echo "$m $chk violations=$v inconclusive=$i $r | $sig" | tee -a $MX/lines_$k.txt
    done
  done
  git -C /repo worktree remove --force $MX/repo_$k
  git -C "$VERIF" worktree remove --force $MX/verif_$k
}
for k in $(seq 0 $((SHARDS-1))); do shard $k & done
wait
# replace the lines of the seeded changes that were run
cat $MX/lines_*.txt 2>/dev/null | awk '{print $1}' | sort -u > $MX/ran.txt
awk 'NR==FNR {ran[$1]=1; next} !($1 in ran)' $MX/ran.txt "$OUT" > $MX/keep.txt
[ -s $MX/ran.txt ] && cat $MX/keep.txt $MX/lines_*.txt | sort > "$OUT"
rm -rf $MX
git -C /repo worktree prune; git -C "$VERIF" worktree prune
