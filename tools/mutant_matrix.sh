#!/bin/bash
# tools/mutant_matrix.sh: every seeded change against the check of its own property (and related ones); quick tier.
cd /verif
OUT=/verif/seeded/MATRIX.txt
: > $OUT
declare -A EXTRA
EXTRA[C01]="C12 C11"; EXTRA[C03]="C01 C11"; EXTRA[C11]="C01 C12"; EXTRA[C12]="C01"; EXTRA[C17]="C04"; EXTRA[C04]="C17"; EXTRA[C14]="C05"
for d in seeded/C*-*; do
  m=$(basename $d); prop=${m%%-*}
  for chk in $prop ${EXTRA[$prop]}; do
    grep -q "\"property_id\": \"$chk\"" MANIFEST.json || continue
    r=$(tools/try_mutant.sh $d/patch.diff $chk 2>&1 | tail -1)
    v=$(grep -cE "^VIOLATION" /tmp/try_mutant.out)
    i=$(grep -cE "^INCONCLUSIVE" /tmp/try_mutant.out)
    sig=$(grep -E "^  [a-zA-Z]" /tmp/try_mutant.out | head -1 | cut -c3-90)
    echo "$m $chk violations=$v inconclusive=$i $r | $sig" | tee -a $OUT
  done
done
