# property id -> manifest entry.  Read by tools/gen_manifest.py.
CHECKS['C02'] = dict(
    category='model_checking',
    text='Bounded symbolic model checking of the real Mesh class: every bisection history up to the stated depth on '
         'every listed small root grid is executed; the grid coordinates are symbolic reals, so z3 decides tiling '
         '(fresh-point query), dyadic ancestry and vertex distinctness for all strictly increasing grids at once; '
         'after every operation the leaf set must equal the least 1-irregular closure computed by an independent '
         'reference model; every assert inside src/mesh.py is an obligation. round(x, n) is modelled (integer k with |x 10^n - k| <= 1/2), so coordinate rounding in the code under test is decided on the symbolic grid.',
    design_ref='3.1', technique='bounded symbolic execution of src/mesh.py + z3 (QF_LRA) per path, lock-step reference model',
    note='Coordinates are reals (no rounding); histories bounded (depth 3 quick, 4 thorough; 2-3 on the 2x2 grids); '
         'Ref (vf/meshref.py) is trusted; Doerfler/grading as operations are C06/C19.')
CHECKS['C10'] = dict(
    category='model_checking',
    text='Same exploration as C02; per reachable state the reported neighbours of every leaf edge must equal the '
         'geometric ones computed by the reference model in exact index arithmetic, and z3 decides on the symbolic '
         'physical coordinates that every reported neighbour lies across the edge line (seam identified) with positive '
         'overlap and that the overlaps add up to the whole edge; symmetry, at most two, boundary/seam flags.',
    design_ref='3.2', technique='bounded symbolic execution of src/mesh.py + z3 (QF_LRA) per path, geometric oracle',
    note='As C02. Flag convention taken from the code\'s own tests: on_boundary marks the border of the parameter '
         'rectangle, glued marks the seam; "boundary" in the property = on_boundary and not glued.')
CHECKS['C01'] = dict(
    category='other',
    text='Structural part only: (P1) __integrate with recording stand-ins on every ordered pair of dyadic cells of 8 '
         'symbolic units u, glued and open - z3 decides that the logged panels tile the rectangle and that every panel '
         'gets the rule graded at its singular corner/diagonal; (P2) bilform evaluates each gamma only on its own '
         'element\'s coordinate, both orders; (P3) recursion of the closed-form path; (P4) fint_1/2/4 mutually consistent '
         'with exp/erf/Ei uninterpreted; (P5) four-term time kernel = specification for all time orderings. The 1e-7 '
         'accuracy itself is NOT decided.',
    design_ref='3.11', technique='symbolic execution of src/single_layer.py / single_layer_exact.py + z3 (QF_LRA per path); identities on canonical linear forms',
    note='exp/Ei/erf uninterpreted; sqrt algebraic; math.isclose/fsum modelled; recording stand-ins for scheme objects; '
         'grading convention of the rules stated in the evidence. Accuracy claims outside.')
CHECKS['C04'] = dict(
    category='other',
    text='(V1) the six causality guards executed with symbolic time intervals: z3 decides on every path that the result is '
         'the literal 0 exactly when the observation ends no later than the trial element begins (bilform, column worker, '
         'potential, evaluate, evaluate_exact, residual); (V2) time kernel = four-term formula and >= 0 under the '
         'concavity axiom for F_q, positive weights; (V3) mat[i][j] = bilform(trial_j, test_i) on the inline, serial and '
         'column-worker paths with the space integration uninterpreted.',
    design_ref='3.10', technique='symbolic execution of the guards and assembly loops + z3; sign modulo a stated axiom on Ei/exp',
    note='Concavity of F_q (F\'\' = -G <= 0) is trusted mathematics; strict positivity and rounding outside; pool replaced by in-order map.')
CHECKS['C05'] = dict(
    category='other', engine='S+T',
    text='Finite and complete: every lookup function executed on a symbolic integer key (z3 decides that the final '
         'assert is reachable for no tabulated / exported key and that every returning path yields a well-formed pair); '
         'every arm of the AST: Return statement, shapes, node range, weight sign; every advertised moment as a z3 query, '
         'on the literals as written (1e-30) and on their double roundings (1e-13), log/sqrt classes through rational '
         'enclosures (one QF_LRA query covers the whole box).',
    design_ref='3.7', technique='symbolic-key execution + exact-rational moment queries (z3 QF_LRA over enclosure boxes)',
    note='Enclosures: atanh series with explicit tail bound, integer square roots (trusted, cross-checked by mpmath in '
         'replay). Two known findings (gauss_log 15 / 31 literals below 1e-30) are held to 1e-18 instead.')
CHECKS['C06'] = dict(
    category='model_checking',
    text='dorfler_refine_isotropic / _anisotropic executed on real meshes (small grid + bounded history) with symbolic '
         'indicators and symbolic theta^2: every outcome pattern of the sort / accumulation comparisons is a path, ties '
         'included; z3 decides per path that the marked set is a shortest descending prefix reaching theta^2*total; the '
         'resulting leaves must equal the reference model\'s least closure of the marked bisections; exceptions on '
         'feasible paths are violations. The (N, 2) indicator array is handed over C-ordered or Fortran-ordered, alternating with the mesh.',
    design_ref='3.3', technique='bounded symbolic execution of src/mesh.py Doerfler routines + z3 (QF_LRA), reference closure',
    note='Indicators normalised to sum 3 (homogeneity assumed), theta carried as q = theta^2, np.sqrt assertion compared '
         'on squares; leaf bounds in evidence.')
CHECKS['C11'] = dict(
    category='other',
    text='Time splits (test, trial, both) are exact identities between executions of the real bilform with the real '
         'rules and symbolic times, on both evaluation paths, for every ordering of the instants; space splits on the '
         'closed-form path for every ordered pair of dyadic cells of a side of 8 symbolic units. Space splits on the '
         'quadrature path are NOT decided.',
    design_ref='3.12', technique='two symbolic executions compared on canonical linear forms (exp/Ei/erf uninterpreted), z3 for path feasibility',
    note='Identity verdicts are closed by normalisation; a residual difference is abstracted to QF_LRA and confirmed by float replay.')
CHECKS['C12'] = dict(
    category='other',
    text='Exchange of space intervals, common time shift (all listed curves) and quarter turn / reflection of the unit '
         'square incl. seam- and corner-crossing pairs of unequal size: identical canonical forms of the two executions, '
         'symbolic times, exact-rational nodes. Pi square, circle rotations, the float tolerance are NOT decided.',
    design_ref='3.13', technique='two symbolic executions compared on canonical linear forms; z3 for path feasibility',
    note='Exact-constant mode (coordinates, nodes and weights as exact rationals of the doubles); exp/Ei/cos/sin uninterpreted.')
CHECKS['C16'] = dict(
    category='model_checking',
    text='InitialMesh built on a square / L-shape of symbolic unit, every refine history up to the depth bound: z3 decides '
         'tiling by axis-parallel dyadic squares and vertex distinctness, 2:1 balance on index rectangles; '
         'refine_msh_bdr + vertex_from_coords on the three shipped factories with a symbolic dyadic segment (symbolic '
         'integer k, level <= bound), both orientations, three input forms: returns the unique leaf with that edge. Levels 8 and 10 (7..10 thorough) with k symbolic inside windows of two adjacent segments (both ends and interior of one piece per domain); a boundary candidate whose first float witness does not replay is retried on other segments (replay only).',
    design_ref='3.5', technique='bounded symbolic execution of src/initial_mesh.py + z3 (QF_LRA / LIA)',
    note='math.isclose modelled (array arguments go through NumPy\'s own scalar conversion); levels above the bound outside.')
CHECKS['C18'] = dict(
    category='other',
    text='Polygon pieces and whole-curve eval on a symbolic parameter (arc length as polynomial identity, eval = piece, '
         'continuity, closedness); MeshParametrized with a symbolic initial time grid of 1..4 (6) slabs on all five '
         'curves after a bounded history: every leaf carries the piece containing its interval, a fresh time lies in >= 3 '
         'leaves on closed curves, two leaves of a slab share at most one end point.',
    design_ref='3.6', technique='symbolic execution of src/parametrization.py / MeshParametrized + z3 (QF_LRA)',
    note='np.select / np.all modelled; circle arc length outside; constructors run concretely.')
CHECKS['C19'] = dict(
    category='model_checking',
    text='refine_grading(sigma in {1,2}, K=4) on root grids shaped like the shipped curves (cell widths w or 2w, slab '
         'heights tau or 2tau) with symbolic w, tau (bounded unit ratio) after a bounded history: every outcome pattern of '
         'the size comparisons is a path; no exception on any feasible path, every leaf in the window afterwards, only '
         'refines, mesh invariants.',
    design_ref='3.4', technique='bounded symbolic execution of Mesh.refine_grading + z3 (QF_NRA for sigma = 2)',
    note='sigma = 1.5 outside; unit ratio within [1/32, 32]; decision bound per path as unwinding assertion.')
CHECKS['C03'] = dict(
    category='other',
    text='Skeleton only: the assembly-and-solve statements of example.py (AST-extracted) and the real '
         'ErrorEstimator.residual are executed with uninterpreted SL / M0 / g and np.linalg.solve as its defining axiom; '
         'z3 decides that, under the three link hypotheses (element integral of evaluate / M0u0 / g = matrix / load / '
         'g-linform entry), the element integral of the residual vanishes - a linear identity that fails for a flipped '
         'sign, wrong index or swapped argument order; g-linform of Dirichlet and MildSingular = exact element integral '
         'of g. The link hypotheses themselves (quadrature accuracy) are NOT decided.',
    design_ref='3.18', technique='symbolic execution of example.py statements + residual, z3 QF_LRA over abstracted monomials under the solve axiom',
    note='Link hypotheses, closed-form M0u0 and the 5e-5 tolerance outside; causality skip of the residual is C04 V1.')
CHECKS['C07'] = dict(
    category='other',
    text='evaluate executed with symbolic x_hat in [0,L] and symbolic times on concrete trial cells of all curves, '
         'compared per path (identity of canonical forms) with a specification built independently in the harness: '
         'literal 0 iff t <= t_a, in-element split with mirrored/plain rule graded at x_hat, assertion exactly for '
         'pieces <= 1e-5, otherwise the rule graded at the end point nearer along the curve (seam-aware), nodes of this '
         'element, time factor; evaluate_exact = sgn-weighted sum of spacetime_evaluated_1. Digit counts NOT decided.',
    design_ref='3.14', technique='symbolic execution of evaluate/evaluate_exact vs harness specification on canonical linear forms; z3 for path feasibility',
    note='Ei/cos/sin uninterpreted; np.select modelled; the specification is the harness author\'s reading of the property.')
CHECKS['C17'] = dict(
    category='other',
    text='Thin part: bilform_matrix and linform_vector executed with uninterpreted space integration / linform, symbolic '
         'times, an in-order stand-in for the pool, a dict model of np.load/np.save with fault choices (absent, '
         'ValueError, EOFError, OSError) and an injective stand-in for md5: every entry equals the single-pair '
         'evaluation on the inline / serial / pool-stand-in / cold / warm / unreadable-cache paths, both sides of the '
         'N*M = 100 threshold, and lists of equal length never share a cache entry. Real pools, chunking, crash points '
         'of np.save and md5 collisions are NOT decided.',
    design_ref='3.19', technique='symbolic execution with modelled file system / pool / md5; identities on canonical forms',
    note='Schedules and crash points are outside the reach of this technique (stated in DESIGN 3.19).')
CHECKS['C20'] = dict(
    category='other',
    text='HH2ErrorEstimator.estimate, HierarchicalErrorEstimator.estimate, DummyElement.uniform_refinement and Prolongate '
         'executed on a real mesh with symbolic grid after a bounded history, with bilform_matrix / linform_vector / g '
         'uninterpreted functions of element geometry, solve as its axiom, the scaling assertion as hypothesis: virtual '
         'children = real grandchildren in the stated order; fine right-hand side = g - M0; h-h/2 = sqrt(d^T A d) with '
         'the real ancestor\'s value; hierarchical pair = (e_t + e_tx/2, e_x + e_tx/2); Prolongate = ancestor value.',
    design_ref='3.17', technique='symbolic execution of the estimators on uninterpreted matrix entries; identities on canonical forms',
    note='<= 5 coarse elements; pool path outside; psi^T S psi > 0 assumed (C13).')
CHECKS['C14'] = dict(
    category='other',
    text='Real Slobodeckij class on rules as exact rationals: (I) translation invariance, quadratic scaling, vanishing on '
         'constants, homogeneity in the interval length, flat = curve-aware on the four axis directions as polynomial '
         'identities with a symbolic interval [a, a+r^2] and symbolic polynomial coefficients (orders 1,3 quick; up to 7 '
         'thorough); two collinear pieces of different length = union interval; (N) all weights positive; (E) for every '
         'order 1..23 and all i <= j <= (N-1)/2 the value on x^i + x^j over [0,1] equals the rational closed form within '
         '1e-12 (ground facts decided by z3). The corner case against a graded reference is NOT decided. Exactness is also decided for objects constructed after objects of other orders in the same process, and the two-piece variant on collinear pieces with independent parameters (both from 0; wrap-around pair).',
    design_ref='3.9', technique='symbolic execution of src/norms.py on exact-rational rules; polynomial identities on canonical forms, ground rational queries',
    note='Closed forms of the Gram entries derived in the harness; invariances decided for the listed orders only.')
CHECKS['C15'] = dict(
    category='other',
    text='Every scheme class executed on exactly-exact rational base rules (2-point midpoint, Simpson, Boole) and symbolic '
         'target boxes (side lengths in [1e-4,1e3]): all monomials up to the advertised degree (tensor: N per variable; '
         '2-D Duffy: N-1; 3-D Duffy: N-2; all mirrors; symmetric variants on symmetric integrands) are polynomial '
         'identities in the box coordinates, the next degree must fail (vacuity twin), weights sum to the measure, double '
         'mirror = identity, all derived schemes share one base object that is re-checked; tabulated rules on the unit box '
         'as ground rational facts. Monotone convergence on log integrands NOT decided.',
    design_ref='3.8', technique='symbolic execution of src/quadrature.py on exact rational rules + symbolic boxes; identities on canonical forms; z3 for guards',
    note='Exactness of the tabulated base rules themselves is C05; np.isclose/allclose modelled if reached.')
CHECKS['C09'] = dict(
    category='other',
    text='Structural part: sobolev_space / sobolev_time / estimate_sobolev / weighted_l2 executed on real parametrised '
         'meshes (UnitSquare, Circle, LShape; bounded history) with the Slobodeckij object replaced by a recorder returning '
         'uninterpreted values and an uninterpreted residual: per element and neighbour the requested patch must be the '
         'union of the two elements in one variable at the Gauss points of their intersection in the other (single-piece / '
         'two-piece / seam), the neighbours must be the geometric ones, the symmetry shortcut must equal the direct sum, '
         'the weighted-L2 scaling must be (h_t^{-1/2}, h_x^{-1}). Quadrature accuracy, pool path, rigid symmetries NOT decided.',
    design_ref='3.16', technique='symbolic execution of src/error_estimator.py with recording stand-ins; identities on canonical forms; reference neighbour model',
    note='One known finding: on a one-piece closed curve (Circle) a seam pair is integrated over the complementary arc.')
CHECKS['C08'] = dict(
    category='other',
    text='Structural part: real InitialOperator.linform on the real boundary-refined domain meshes with a symbolic time '
         'interval and an uninterpreted initial datum: (G) for every dyadic boundary segment up to the level bound exactly '
         'one leaf has the segment as an edge, every leaf meeting the segment has an end point as a vertex, the identical '
         'cell is parametrised orthonormally (polynomial identity); (K) the load is additive under time splits and '
         'linform([a,b]) = linform([0,b]) - linform([0,a]) - exact identities pinning the a == 0 case distinction; (U) '
         'linear in u0; (R) the Duffy rules the operator holds integrate all monomials of degree <= 2 incl. non-symmetric '
         'ones. The 1e-5 agreement with closed forms, space additivity and pointwise evaluation are NOT decided.',
    design_ref='3.15', technique='symbolic execution of src/initial_potential.py (E1 uninterpreted) + identities on canonical forms; ground rational rule checks',
    note='quad_int = 1 for the symbolic part; segment levels <= 2 (quick) / 4 (thorough).')
# -- additions made while strengthening the checks against the seeded changes -----------------------------------
CHECKS['C02']['text'] += (' A QF_FP lemma on the real __bisect_edge: the midpoint vertex is independent of the edge '
                          'orientation in IEEE double arithmetic (thorough: and lies within the edge).')
CHECKS['C03']['text'] += (' (M) the real residual fed with the shipped problems\' own M0u0 / g evaluates and equals '
                          'V Phi + M0u0 - g (symbolic time where the closed form is real-valued).')
CHECKS['C04']['text'] += (' bilform is exercised on the quadrature path and, for same-side pairs in both parameter '
                          'orders, on the closed-form path with the real closed forms.')
CHECKS['C05']['text'] += (' Every returning lookup path must yield the table entry written for that key, and lookups '
                          'requested one after the other, in file order and in reverse, must each return their own arm.')
CHECKS['C07']['text'] += (' (H) the same specification after a register / bisect / register history on a real mesh: the '
                          'pre-tabulated curve points must be those of the child.')
CHECKS['C09']['text'] += (' The pool path (in-order stand-in) must equal the serial result for a second residual on the '
                          'same estimator and element list; two-step directed histories give stacked neighbours of unequal size.')
CHECKS['C14']['text'] += (' Exactness is also decided on the shifted polynomial over [7, 7 + 1/900], the short end of the '
                          'property\'s interval range.')
CHECKS['C15']['text'] += (' Every mirror of one scheme object reflects exactly its own coordinate, in any request order '
                          'and in composition (x then y, y then x, twice the same).')
CHECKS['C16']['text'] += (' End points carry a symbolic rounding perturbation (|delta| <= 1e-15 unit) at three segment '
                          'levels; lookups are interleaved with refinements and a second targeted refinement runs on the same mesh.')
CHECKS['C17']['text'] += (' Real mesh elements differing in the 13th digit and another problem on the same elements must '
                          'not share a cache entry either.')
CHECKS['C19']['text'] += (' Besides free histories: point-directed histories (<= 4 space + <= 6 time bisections at a '
                          'corner of a root cell) and two gradings with different exponents on one mesh object.')

# -- third round ------------------------------------------------------------------------------------------------
CHECKS['C01']['text'] += (' (P6) the scheme objects the operator holds (duff_log_log, log_log, mirrors) integrate '
                          'x, y, x^2, xy, y^2 on the unit square (ground rational facts): P1 hands non-square boxes to the Duffy rule.')
CHECKS['C03']['text'] += (' np.argsort is modelled under its contract (ties in either order).')
CHECKS['C05']['text'] += (' The front end follows a table helper behind the public lookup and reads literal arithmetic as '
                          'Python does; double-precision moments are decided on the values the real lookup returns.')
CHECKS['C07']['text'] += (' Candidates are replayed on several pairwise different witnesses of the path.')
CHECKS['C08']['text'] += (' The cells linform reports as integrated are pairwise different and cover the area of the domain.')
CHECKS['C09']['text'] += (' The element list reversed must give the direct sums; N_poly given as four orders must reach the five rules it names.')
CHECKS['C14']['text'] += (' Two different orders (7,3), (3,7): each seminorm must use the rule of its own order.')
CHECKS['C15']['text'] += (' One exact base rule is unordered and asymmetric (Radau): a rule is a set of (node, weight) pairs.')
CHECKS['C16']['text'] += (' Four input forms incl. plain Python integers at corners.')
CHECKS['C17']['text'] += (' Element lists of mixed widths; matrices 7 x 17 / 4 x 33 with the pool stand-in reporting 1 / 2 workers '
                          '(trial count above 16 x workers and not a multiple of the chunk size).')
CHECKS['C18']['text'] += (' eval on integer parameters given as Python int, NumPy integer, integer-dtype array and float array.')
CHECKS['C19']['text'] += (' Exponents 1, 3/2 and 2 (3/2 through a registered power atom with sqrt(2) exact); one isotropic '
                          'staircase of 8 + 8 bisections for sigma = 3/2, explored with w = v^2, 1/2 <= v <= 2.')

# -- fourth round -----------------------------------------------------------------------------------------------
CHECKS['C08']['text'] += (' (V) with u0 = 1 and the exponential integral replaced by the constant 4*pi every cell contributes '
                          'area(cell) x |segment| (all segments up to the level bound on the three domains; ground rational facts).')
CHECKS['C14']['text'] += (' On a straight segment traversed with symbolic speed kappa the curve-aware value is flat / kappa^2 '
                          '(the denominator is the Euclidean distance of the curve points); invariances also for order 5.')
CHECKS['C17']['text'] += (' The same list object as test and trial (and the defaulted trial list) must still give bilform(trial_j, test_i).')

NA['C13'] = ('an eigenvalue bound on a matrix whose entries are quadratures of Ei/exp: no fragment of it is a '
             'statement an SMT solver can decide about the real code (DESIGN 3.20)')
