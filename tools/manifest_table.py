# property id -> manifest entry.  Read by tools/gen_manifest.py.
CHECKS['C02'] = dict(
    category='model_checking',
    text='Bounded symbolic model checking of the real Mesh class: every bisection history up to the stated depth on '
         'every listed small root grid is executed; the grid coordinates are symbolic reals, so z3 decides tiling '
         '(fresh-point query), dyadic ancestry and vertex distinctness for all strictly increasing grids at once; '
         'after every operation the leaf set must equal the least 1-irregular closure computed by an independent '
         'reference model; every assert inside src/mesh.py is an obligation.',
    design_ref='3.1', technique='bounded symbolic execution of src/mesh.py + z3 (QF_LRA) per path, lock-step reference model',
    note='Coordinates are reals (no rounding); histories bounded (depth 3 quick, 4 thorough; 2-3 on the 2x2 grids); '
         'Ref (vf/meshref.py) is trusted; Doerfler/grading as operations are C06/C19.')
CHECKS['C10'] = dict(
    category='model_checking',
    text='Same exploration as C02; per reachable state the reported neighbours of every leaf edge must equal the '
         'geometric ones computed by the reference model in exact index arithmetic, and z3 decides on the symbolic '
         'physical coordinates that every reported neighbour lies across the edge line (seam identified) with positive '
         'overlap and that the overlaps add up to the whole edge; symmetry, at most two, boundary/seam flags.',
    design_ref='3.2', technique='bounded symbolic execution of src/mesh.py + z3 (QF_LRA) per path, geometric oracle',
    note='As C02. Flag convention taken from the code\'s own tests: on_boundary marks the border of the parameter '
         'rectangle, glued marks the seam; "boundary" in the property = on_boundary and not glued.')
NA['C13'] = ('an eigenvalue bound on a matrix whose entries are quadratures of Ei/exp: no fragment of it is a '
             'statement an SMT solver can decide about the real code (DESIGN 3.20)')
NA['C01'] = 'check not built yet (work in progress; see DESIGN.md for the plan)'
NA['C03'] = 'check not built yet (work in progress; see DESIGN.md for the plan)'
NA['C04'] = 'check not built yet (work in progress; see DESIGN.md for the plan)'
NA['C05'] = 'check not built yet (work in progress; see DESIGN.md for the plan)'
NA['C06'] = 'check not built yet (work in progress; see DESIGN.md for the plan)'
NA['C07'] = 'check not built yet (work in progress; see DESIGN.md for the plan)'
NA['C08'] = 'check not built yet (work in progress; see DESIGN.md for the plan)'
NA['C09'] = 'check not built yet (work in progress; see DESIGN.md for the plan)'
NA['C11'] = 'check not built yet (work in progress; see DESIGN.md for the plan)'
NA['C12'] = 'check not built yet (work in progress; see DESIGN.md for the plan)'
NA['C14'] = 'check not built yet (work in progress; see DESIGN.md for the plan)'
NA['C15'] = 'check not built yet (work in progress; see DESIGN.md for the plan)'
NA['C16'] = 'check not built yet (work in progress; see DESIGN.md for the plan)'
NA['C17'] = 'check not built yet (work in progress; see DESIGN.md for the plan)'
NA['C18'] = 'check not built yet (work in progress; see DESIGN.md for the plan)'
NA['C19'] = 'check not built yet (work in progress; see DESIGN.md for the plan)'
NA['C20'] = 'check not built yet (work in progress; see DESIGN.md for the plan)'
