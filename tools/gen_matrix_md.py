#!/usr/bin/env python3
"""Fills the seeded-change table of DESIGN.md (between the MATRIX markers) from seeded/MATRIX.txt and the metas."""
import json, os, re
HERE = os.path.dirname(os.path.dirname(os.path.abspath(__file__)))
rows = {}
for ln in open(os.path.join(HERE, 'seeded', 'MATRIX.txt')):
    m = re.match(r'(\S+) (\S+) violations=(\d+) inconclusive=(\d+) exit=(\d+) wall=(\d+)s \| ?(.*)', ln.strip())
    if not m:
        continue
    mut, chk, v, i, rc, wall, sig = m.groups()
    rows.setdefault(mut, []).append((chk, int(rc), sig.strip()))
out = ['<!-- MATRIX:BEGIN -->', '| seeded change | what it does (needs to manifest) | caught by (quick tier) | not caught by |', '|---|---|---|---|']
caught_n = 0
for mut in sorted(rows):
    try:
        meta = json.load(open(os.path.join(HERE, 'seeded', mut, 'meta.json')))
    except Exception:
        meta = {}
    summ = (meta.get('summary') or '').replace('|', '/').replace('\n', ' ')
    need = (meta.get('needs_to_manifest') or '').replace('|', '/').replace('\n', ' ')
    if len(summ) > 170:
        summ = summ[:167] + '...'
    if len(need) > 150:
        need = need[:147] + '...'
    caught = ['%s (`%s`)' % (c, s.split(':')[0] + (':' + s.split(':')[1] if ':' in s else '')) for c, rc, s in rows[mut] if rc == 1]
    missed = [c + (' (inconclusive)' if rc == 3 else '') for c, rc, s in rows[mut] if rc != 1]
    if caught:
        caught_n += 1
    out.append('| %s | %s — *%s* | %s | %s |' % (mut, summ, need, '; '.join(caught) or '**none**', ', '.join(missed) or '—'))
out.append('')
out.append('%d of %d seeded changes are reported by at least one quick check.' % (caught_n, len(rows)))
out.append('<!-- MATRIX:END -->')
p = os.path.join(HERE, 'DESIGN.md')
s = open(p).read()
block = '\n'.join(out)
if '@@MATRIX@@' in s:
    s = s.replace('@@MATRIX@@', block)
else:
    s = re.sub(r'<!-- MATRIX:BEGIN -->.*<!-- MATRIX:END -->', lambda m: block, s, flags=re.S)
open(p, 'w').write(s)
print('matrix rows:', len(rows), 'caught:', caught_n)
