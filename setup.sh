#!/bin/bash
# Builds the overlay venv used by every check: /venv's packages (numpy, scipy, the repo's own
# dependencies) + z3-solver, cvc5, crosshair-tool from the offline wheelhouse. Idempotent.
set -e
HERE="$(cd "$(dirname "$0")" && pwd)"
VENV="$HERE/.venv"
if [ -x "$VENV/bin/python" ] && "$VENV/bin/python" -c "import z3, numpy, scipy, crosshair" 2>/dev/null; then
  exit 0
fi
rm -rf "$VENV"
/venv/bin/python -m venv "$VENV"
SP="$("$VENV/bin/python" -c 'import sysconfig; print(sysconfig.get_paths()["purelib"])')"
echo "import site; site.addsitedir('/venv/lib/python3.12/site-packages')" > "$SP/zz_venv_overlay.pth"
PIP_NO_INDEX=1 "$VENV/bin/pip" install -q --no-index --find-links /opt/veriftools/wheels z3-solver cvc5 crosshair-tool >/dev/null
"$VENV/bin/python" -c "import z3, numpy, scipy, crosshair; print('overlay venv ok: z3', z3.get_version_string(), 'numpy', numpy.__version__)"
